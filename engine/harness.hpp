// Harness interface shared by all property files in props/.
// A property file registers named *clauses* (sub-properties); each clause is a function of a choice source.
// The driver (engine/driver.cpp) runs clauses under rapidcheck, replays saved cases, shrinks failures.
#pragma once
#include <csetjmp>
#include <unistd.h>
#include <cstdio>
#include <algorithm>
#include <cmath>
#include <cstring>
#include <functional>
#include <map>
#include <sstream>
#include <string>
#include <vector>
#include <iomanip>

#include "choice.hpp"

namespace vf
{
// ---- outcome signalling -------------------------------------------------------------------------------------------
struct Fail
{
	std::string msg;
};
struct Discard
{
};

// ---- per-case context ---------------------------------------------------------------------------------------------
struct Ctx
{
	Src& s;
	bool verbose = false;	// true on replay and when a sample is rendered: properties describe the decoded case in `log`
	int live_fd	 = -1;		// replay: additionally stream the description to this fd as it is produced (survives a crash)
	std::ostringstream log;
	bool nontrivial = false;
	std::vector<std::string> classes;					 // class labels hit by this case
	std::vector<std::pair<std::string, double>> worst;	 // tolerance ratios |err|/tol observed (reported, max-merged)
	std::vector<std::string> excluded;					 // known-finding matchers that excluded (part of) this case
	explicit Ctx(Src& src)
	: s(src)
	{
		log << std::setprecision(17);
	}
	void cls(const char* c) { classes.emplace_back(c); }
	void nt() { nontrivial = true; }
	void ratio(const char* name, double r) { worst.emplace_back(name, r); }
	void known(const char* id) { excluded.emplace_back(id); }
};

#define VLOG(c, expr)                                                   \
	do                                                                  \
	{                                                                   \
		if((c).verbose)                                                 \
		{                                                               \
			if((c).live_fd >= 0)                                        \
			{                                                           \
				std::ostringstream _ls;                                 \
				_ls << std::setprecision(17) << expr << "\n";           \
				std::string _lt = _ls.str();                            \
				if(::write((c).live_fd, _lt.data(), _lt.size()) < 0) {} \
			}                                                           \
			else                                                        \
				(c).log << expr << "\n";                                \
		}                                                               \
	} while(0)

#define VFAIL(expr)                                        \
	do                                                     \
	{                                                      \
		std::ostringstream _os;                            \
		_os << std::setprecision(17) << expr;              \
		throw ::vf::Fail {_os.str()};                      \
	} while(0)

#define VCHECK(cond, expr)                                                       \
	do                                                                           \
	{                                                                            \
		if(!(cond))                                                              \
			VFAIL("CHECK FAILED (" #cond ") at " << __FILE__ << ":" << __LINE__ << ": " << expr); \
	} while(0)

// |got-ref| <= tol, NaN-safe (NaN in got fails), records the ratio for the evidence
#define VCLOSE(c, name, got, ref, tol, expr)                                                                       \
	do                                                                                                            \
	{                                                                                                             \
		double _g = (double) (got), _r = (double) (ref), _t = (double) (tol);                                      \
		const char* _nm = (name);                                                                                 \
		double _e = std::fabs(_g - _r);                                                                           \
		bool _ok  = (_g == _r) || (_e <= _t);                                                                     \
		if(_t > 0 && _e == _e)                                                                                    \
			(c).ratio(_nm, _e / _t);                                                                            \
		if(!_ok)                                                                                                  \
			VFAIL("CLOSE FAILED [" << _nm << "] at " << __FILE__ << ":" << __LINE__ << ": got=" << _g << " ref=" << _r \
								   << " |diff|=" << _e << " tol=" << _t << " :: " << expr);                        \
	} while(0)

// ---- std::exit trap ----------------------------------------------------------------------------------------------
struct GuardResult
{
	bool exited = false;   // the guarded code called std::exit
	int code	= 0;	   // exit status it asked for
	bool output = false;   // something non-blank was written to stdout/stderr during the call
	std::string text;	   // captured diagnostic (truncated)
};
namespace detail
{
extern std::jmp_buf* g_jb;
extern volatile int g_exit_code;
long capture_pos();
std::string capture_read(long from);
}	// namespace detail

// Runs f. If f (the library) calls std::exit, control returns here instead of terminating the process.
template <class F>
GuardResult guarded(F&& f)
{
	GuardResult r;
	long before			  = detail::capture_pos();
	std::jmp_buf jb;
	std::jmp_buf* volatile saved = detail::g_jb;
	if(setjmp(jb) == 0)
	{
		detail::g_jb = &jb;
		f();
		detail::g_jb = saved;
	}
	else
	{
		detail::g_jb = saved;
		r.exited	 = true;
		r.code		 = detail::g_exit_code;
	}
	fflush(stdout);
	r.text = detail::capture_read(before);
	for(char ch : r.text)
		if(!isspace((unsigned char) ch))
		{
			r.output = true;
			break;
		}
	return r;
}

// f must return normally (a "meaningful request"); an exit is a failure of the property under test.
#define VMUST_RETURN(what, ...)                                                                                     \
	do                                                                                                             \
	{                                                                                                              \
		::vf::GuardResult _gr = ::vf::guarded([&]() { __VA_ARGS__; });                                             \
		if(_gr.exited)                                                                                             \
			VFAIL("UNEXPECTED EXIT in " << what << " at " << __FILE__ << ":" << __LINE__ << " status=" << _gr.code  \
										<< " diagnostic=\"" << _gr.text << "\"");                                  \
	} while(0)

// f must terminate the process with a failure status and a non-empty diagnostic.
#define VMUST_EXIT(what, ...)                                                                                        \
	do                                                                                                              \
	{                                                                                                               \
		::vf::GuardResult _gr = ::vf::guarded([&]() { __VA_ARGS__; });                                              \
		if(!_gr.exited)                                                                                             \
			VFAIL("MISSING EXIT: " << what << " returned normally at " << __FILE__ << ":" << __LINE__);              \
		if(_gr.code == 0)                                                                                           \
			VFAIL("EXIT WITH SUCCESS STATUS in " << what << " at " << __FILE__ << ":" << __LINE__);                  \
		if(!_gr.output)                                                                                             \
			VFAIL("EXIT WITHOUT DIAGNOSTIC in " << what << " at " << __FILE__ << ":" << __LINE__);                   \
	} while(0)

// ---- clause registry ---------------------------------------------------------------------------------------------
struct Clause
{
	std::string name;
	std::function<void(Ctx&)> fn;
	int words;		   // choice words generated per case
	long n_quick;	   // cases in the quick tier (whole run, divided over shards)
	long n_thorough;   // cases in the thorough tier
	bool isolate;	   // run every case in a forked child under a watchdog (targets that may not terminate)
	double timeout_s;  // per-case watchdog
	std::string nt_rule;
};
std::vector<Clause>& registry();
struct Registrar
{
	Registrar(const char* name, std::function<void(Ctx&)> fn, int words, long nq, long nt, const char* rule, bool isolate = false, double timeout_s = 20.0)
	{
		registry().push_back(Clause {name, fn, words, nq, nt, isolate, timeout_s, rule});
	}
};
#define VCLAUSE(ident, words, nquick, nthorough, rule)                                              \
	static void clause_##ident(::vf::Ctx& c);                                                       \
	static ::vf::Registrar reg_##ident(#ident, clause_##ident, words, nquick, nthorough, rule);     \
	static void clause_##ident(::vf::Ctx& c)
#define VCLAUSE_ISOLATED(ident, words, nquick, nthorough, rule, timeout)                                         \
	static void clause_##ident(::vf::Ctx& c);                                                                    \
	static ::vf::Registrar reg_##ident(#ident, clause_##ident, words, nquick, nthorough, rule, true, timeout);   \
	static void clause_##ident(::vf::Ctx& c)

// property id of this binary, defined by the property file
extern const char* const kPropertyId;

// ---- known findings ----------------------------------------------------------------------------------------------
// true iff /verif/known_findings.jsonl lists an OPEN finding with this id (generators then exclude its matcher region)
bool finding_open(const char* id);

// ---- helper: evaluate f in a forked child of the current process (pristine copy of the library's static state) ----------
// returns false if the child crashed, exited or did not answer within timeout_s
bool run_in_child(const std::function<std::vector<double>()>& f, std::vector<double>& result, double timeout_s = 20.0, int* wait_status = nullptr);

// ---- small numeric helpers -----------------------------------------------------------------------------------------
constexpr double EPS = 2.220446049250313e-16;
inline bool same_bits(double a, double b)
{
	return std::memcmp(&a, &b, sizeof(double)) == 0;
}
inline std::string show(const std::vector<double>& v, size_t maxn = 12)
{
	std::ostringstream os;
	os << std::setprecision(17) << "{";
	for(size_t i = 0; i < v.size() && i < maxn; i++)
		os << (i ? "," : "") << v[i];
	if(v.size() > maxn)
		os << ",...(" << v.size() << ")";
	os << "}";
	return os.str();
}
inline std::string show(const std::vector<std::vector<double>>& m, size_t maxn = 8)
{
	std::ostringstream os;
	os << "{";
	for(size_t i = 0; i < m.size() && i < maxn; i++)
		os << (i ? "," : "") << show(m[i], maxn);
	if(m.size() > maxn)
		os << ",...(" << m.size() << " rows)";
	os << "}";
	return os.str();
}
}	// namespace vf
