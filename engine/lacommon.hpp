// Shared generators / reference linear algebra (long double) for the matrix properties C04 C05 C15 C16.
#pragma once
#include <algorithm>
#include <cmath>
#include <vector>

#include "choice.hpp"

namespace vf
{
using Rows	= std::vector<std::vector<double>>;
using LRows = std::vector<std::vector<long double>>;

// emode 0: small integers (all arithmetic exact), emode 1: mixed magnitudes 10^[-8,8] with zeros and signs
inline Rows gen_entries(Src& s, int m, int n, int emode)
{
	Rows a(m, std::vector<double>(n));
	for(auto& r : a)
		for(auto& x : r)
			x = emode == 0 ? s.small_int(9) : s.mixed(-8, 8);
	return a;
}

inline LRows to_l(const Rows& a)
{
	LRows r(a.size());
	for(size_t i = 0; i < a.size(); i++)
		r[i].assign(a[i].begin(), a[i].end());
	return r;
}
inline LRows l_mul(const LRows& a, const LRows& b)
{
	size_t m = a.size(), k = b.size(), n = b.empty() ? 0 : b[0].size();
	LRows r(m, std::vector<long double>(n, 0.0L));
	for(size_t i = 0; i < m; i++)
		for(size_t j = 0; j < n; j++)
			for(size_t l = 0; l < k; l++)
				r[i][j] += a[i][l] * b[l][j];
	return r;
}
inline LRows l_transpose(const LRows& a)
{
	size_t m = a.size(), n = a.empty() ? 0 : a[0].size();
	LRows r(n, std::vector<long double>(m));
	for(size_t i = 0; i < m; i++)
		for(size_t j = 0; j < n; j++)
			r[j][i] = a[i][j];
	return r;
}
inline LRows l_identity(size_t n)
{
	LRows r(n, std::vector<long double>(n, 0.0L));
	for(size_t i = 0; i < n; i++)
		r[i][i] = 1.0L;
	return r;
}
inline long double l_frob(const LRows& a)
{
	long double s = 0;
	for(auto& r : a)
		for(auto x : r)
			s += x * x;
	return sqrtl(s);
}
// determinant by LU with partial pivoting in long double
inline long double l_det(LRows a)
{
	size_t n		= a.size();
	long double det = 1.0L;
	for(size_t i = 0; i < n; i++)
	{
		size_t p = i;
		for(size_t r = i + 1; r < n; r++)
			if(fabsl(a[r][i]) > fabsl(a[p][i]))
				p = r;
		if(a[p][i] == 0.0L)
			return 0.0L;
		if(p != i)
		{
			std::swap(a[p], a[i]);
			det = -det;
		}
		det *= a[i][i];
		for(size_t r = i + 1; r < n; r++)
		{
			long double f = a[r][i] / a[i][i];
			for(size_t c = i; c < n; c++)
				a[r][c] -= f * a[i][c];
		}
	}
	return det;
}
// inverse by Gauss-Jordan with full pivoting in long double; returns false if singular to working precision
inline bool l_inverse(const LRows& a0, LRows& inv)
{
	size_t n = a0.size();
	LRows a	 = a0;
	inv		 = l_identity(n);
	std::vector<size_t> colperm(n);
	for(size_t i = 0; i < n; i++)
		colperm[i] = i;
	for(size_t i = 0; i < n; i++)
	{
		size_t pr = i, pc = i;
		long double best = 0;
		for(size_t r = i; r < n; r++)
			for(size_t c = i; c < n; c++)
				if(fabsl(a[r][c]) > best)
				{
					best = fabsl(a[r][c]);
					pr	 = r;
					pc	 = c;
				}
		if(best == 0.0L)
			return false;
		std::swap(a[pr], a[i]);
		std::swap(inv[pr], inv[i]);
		if(pc != i)
		{
			for(size_t r = 0; r < n; r++)
				std::swap(a[r][pc], a[r][i]);
			std::swap(colperm[pc], colperm[i]);
		}
		long double piv = a[i][i];
		for(size_t c = 0; c < n; c++)
		{
			a[i][c] /= piv;
			inv[i][c] /= piv;
		}
		for(size_t r = 0; r < n; r++)
			if(r != i)
			{
				long double f = a[r][i];
				if(f != 0.0L)
					for(size_t c = 0; c < n; c++)
					{
						a[r][c] -= f * a[i][c];
						inv[r][c] -= f * inv[i][c];
					}
			}
	}
	// undo the column permutation: row i of the solution corresponds to unknown colperm[i]
	LRows out(n, std::vector<long double>(n));
	for(size_t i = 0; i < n; i++)
		out[colperm[i]] = inv[i];
	inv = out;
	return true;
}
// random orthogonal matrix as a product of Givens rotations (long double), exact orthogonality up to rounding
inline LRows gen_orthogonal(Src& s, int n, int rotations)
{
	LRows q = l_identity((size_t) n);
	if(n < 2)
		return q;
	for(int r = 0; r < rotations; r++)
	{
		int i = (int) s.range(0, n - 1), j = (int) s.range(0, n - 2);
		if(j >= i)
			j++;
		long double th = (long double) s.uniform(0, 6.283185307179586);
		long double cs = cosl(th), sn = sinl(th);
		for(int k = 0; k < n; k++)
		{
			long double a = q[k][i], b = q[k][j];
			q[k][i] = cs * a - sn * b;
			q[k][j] = sn * a + cs * b;
		}
	}
	if(s.coin())   // optional reflection
		for(int k = 0; k < n; k++)
			q[k][0] = -q[k][0];
	return q;
}
inline Rows to_d(const LRows& a)
{
	Rows r(a.size());
	for(size_t i = 0; i < a.size(); i++)
	{
		r[i].resize(a[i].size());
		for(size_t j = 0; j < a[i].size(); j++)
			r[i][j] = (double) a[i][j];
	}
	return r;
}
}	// namespace vf
