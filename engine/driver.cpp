// Driver shared by all property binaries: rapidcheck-driven generation, replay, fork-isolated shrinking,
// std::exit trap, stdout/stderr capture, per-case watchdog, statistics for the evidence files.
#ifndef VF_FUZZ
#include <rapidcheck.h>
#endif

#include <fcntl.h>
#include <poll.h>
#include <signal.h>
#include <sys/mman.h>
#include <sys/stat.h>
#include <sys/time.h>
#include <sys/wait.h>
#include <unistd.h>

#include <algorithm>
#include <chrono>
#include <cinttypes>
#include <fstream>
#include <iostream>
#include <set>
#include <unordered_set>

#include "harness.hpp"

namespace vf
{
std::vector<Clause>& registry()
{
	static std::vector<Clause> r;
	return r;
}

// ---------------------------------------------------------------------------------------------------------------
// exit trap + output capture
namespace detail
{
std::jmp_buf* g_jb		 = nullptr;
volatile int g_exit_code = 0;
static int g_cap_fd		 = -1;	 // file that receives fd 1 and fd 2
static int g_out_fd		 = 1;	 // the real stdout of the harness
long capture_pos()
{
	fflush(stdout);
	std::cout.flush();
	if(g_cap_fd < 0)
		return 0;
	return (long) lseek(g_cap_fd, 0, SEEK_END);
}
std::string capture_read(long from)
{
	if(g_cap_fd < 0)
		return "";
	long end = (long) lseek(g_cap_fd, 0, SEEK_END);
	if(end <= from)
		return "";
	size_t len = (size_t) std::min<long>(end - from, 600);
	std::string s(len, '\0');
	ssize_t k = pread(g_cap_fd, &s[0], len, from);
	s.resize(k > 0 ? (size_t) k : 0);
	return s;
}
static void capture_reset()
{
	if(g_cap_fd < 0)
		return;
	fflush(stdout);
	if(ftruncate(g_cap_fd, 0) != 0) {}
	lseek(g_cap_fd, 0, SEEK_SET);
}
static void capture_init()
{
	fflush(stdout);
	g_out_fd = dup(1);
	int fd	 = memfd_create("vf_capture", 0);
	if(fd < 0)
	{
		char tmpl[] = "/dev/shm/vfcapXXXXXX";
		fd			= mkstemp(tmpl);
		unlink(tmpl);
	}
	// O_APPEND semantics are not available on memfd dup; both fds share one offset, which is what we want.
	dup2(fd, 1);
	dup2(fd, 2);
	g_cap_fd = fd;
}
}	// namespace detail

static void out(const std::string& s)
{
	size_t off = 0;
	while(off < s.size())
	{
		ssize_t k = write(detail::g_out_fd, s.data() + off, s.size() - off);
		if(k <= 0)
			break;
		off += (size_t) k;
	}
}
}	// namespace vf

extern "C" void __real_exit(int);
extern "C" void __wrap_exit(int code)
{
	if(vf::detail::g_jb != nullptr)
	{
		fflush(stdout);
		std::cout.flush();
		std::cerr.flush();
		vf::detail::g_exit_code = code;
		std::longjmp(*vf::detail::g_jb, 1);
	}
	__real_exit(code);
	__builtin_unreachable();
}

namespace vf
{
// ---------------------------------------------------------------------------------------------------------------
// known findings
static std::string g_verif_dir = "/verif";
struct Finding
{
	std::string id, property, status, what;
};
static std::string json_str(const std::string& line, const std::string& key)
{
	size_t p = line.find("\"" + key + "\"");
	if(p == std::string::npos)
		return "";
	p = line.find(':', p);
	if(p == std::string::npos)
		return "";
	p = line.find('"', p);
	if(p == std::string::npos)
		return "";
	std::string r;
	for(size_t i = p + 1; i < line.size(); i++)
	{
		if(line[i] == '\\' && i + 1 < line.size())
		{
			r += line[++i];
			continue;
		}
		if(line[i] == '"')
			break;
		r += line[i];
	}
	return r;
}
static std::vector<Finding>& findings()
{
	static std::vector<Finding> f;
	static bool loaded = false;
	if(!loaded)
	{
		loaded = true;
		std::ifstream in(g_verif_dir + "/known_findings.jsonl");
		std::string line;
		while(std::getline(in, line))
		{
			if(line.find('{') == std::string::npos)
				continue;
			f.push_back({json_str(line, "id"), json_str(line, "property"), json_str(line, "status"), json_str(line, "what")});
		}
	}
	return f;
}
bool finding_open(const char* id)
{
	for(auto& f : findings())
		if(f.id == id && f.status == "open")
			return true;
	return false;
}

// ---------------------------------------------------------------------------------------------------------------
// running one case
struct Outcome
{
	enum Kind
	{
		PASS	= 0,
		FAIL	= 1,
		DISCARD = 2,
		CRASH	= 3,
		TIMEOUT = 4
	} kind = PASS;
	std::string msg;
	bool nontrivial = false;
	size_t consumed = 0;
	std::vector<std::string> classes;
	std::vector<std::pair<std::string, double>> worst;
	std::vector<std::string> excluded;
	std::string log;
};

static bool g_live_replay = false;
static Outcome run_inproc(const Clause& cl, const std::vector<uint64_t>& words, int size, bool verbose)
{
	Outcome o;
	Src s(words, size);
	Ctx c(s);
	c.verbose = verbose;
	if(verbose && g_live_replay)
		c.live_fd = detail::g_out_fd;
	detail::capture_reset();
	try
	{
		GuardResult gr = guarded([&]() { cl.fn(c); });
		if(gr.exited)
		{
			o.kind = Outcome::FAIL;
			o.msg  = "UNGUARDED EXIT: the library called std::exit(" + std::to_string(gr.code) + ") on a request the harness expected to return; diagnostic=\"" + gr.text + "\"";
		}
	}
	catch(const Fail& f)
	{
		o.kind = Outcome::FAIL;
		o.msg  = f.msg;
	}
	catch(const Discard&)
	{
		o.kind = Outcome::DISCARD;
	}
	catch(const std::exception& e)
	{
		o.kind = Outcome::FAIL;
		o.msg  = std::string("UNEXPECTED C++ EXCEPTION escaped the library: ") + e.what();
	}
	detail::g_jb = nullptr;
	o.nontrivial = c.nontrivial;
	o.consumed	 = s.pos;
	o.classes	 = std::move(c.classes);
	o.worst		 = std::move(c.worst);
	o.excluded	 = std::move(c.excluded);
	if(verbose)
		o.log = c.log.str();
	return o;
}

static std::string ser(const Outcome& o)
{
	std::ostringstream os;
	os << std::setprecision(17);
	os << (int) o.kind << "\n" << (int) o.nontrivial << "\n" << o.consumed << "\n";
	os << o.classes.size() << "\n";
	for(auto& c : o.classes)
		os << c << "\n";
	os << o.worst.size() << "\n";
	for(auto& w : o.worst)
		os << w.first << "\n" << w.second << "\n";
	os << o.excluded.size() << "\n";
	for(auto& c : o.excluded)
		os << c << "\n";
	os << o.msg.size() << "\n" << o.msg << "\n" << o.log.size() << "\n" << o.log;
	return os.str();
}
static bool deser(const std::string& s, Outcome& o)
{
	std::istringstream is(s);
	int k, nt;
	size_t n;
	std::string line;
	if(!(is >> k >> nt >> o.consumed >> n))
		return false;
	o.kind		 = (Outcome::Kind) k;
	o.nontrivial = nt;
	std::getline(is, line);
	for(size_t i = 0; i < n; i++)
	{
		std::getline(is, line);
		o.classes.push_back(line);
	}
	is >> n;
	std::getline(is, line);
	for(size_t i = 0; i < n; i++)
	{
		std::string nm;
		std::getline(is, nm);
		std::getline(is, line);
		o.worst.emplace_back(nm, atof(line.c_str()));
	}
	is >> n;
	std::getline(is, line);
	for(size_t i = 0; i < n; i++)
	{
		std::getline(is, line);
		o.excluded.push_back(line);
	}
	is >> n;
	std::getline(is, line);
	o.msg.resize(n);
	is.read(&o.msg[0], (std::streamsize) n);
	std::getline(is, line);
	is >> n;
	std::getline(is, line);
	o.log.resize(n);
	is.read(&o.log[0], (std::streamsize) n);
	return true;
}

// run in a forked child under a watchdog; crash and non-termination become outcomes
static Outcome run_forked(const Clause& cl, const std::vector<uint64_t>& words, int size, bool verbose, double timeout_s)
{
	int pfd[2];
	if(pipe(pfd) != 0)
	{
		Outcome o;
		o.kind = Outcome::FAIL;
		o.msg  = "harness: pipe failed";
		return o;
	}
	fflush(stdout);
	pid_t pid = fork();
	if(pid == 0)
	{
		close(pfd[0]);
		Outcome o	  = run_inproc(cl, words, size, verbose);
		std::string b = ser(o);
		size_t off	  = 0;
		while(off < b.size())
		{
			ssize_t k = write(pfd[1], b.data() + off, b.size() - off);
			if(k <= 0)
				break;
			off += (size_t) k;
		}
		close(pfd[1]);
		_exit(0);
	}
	close(pfd[1]);
	std::string buf;
	auto t0		  = std::chrono::steady_clock::now();
	bool timedout = false;
	for(;;)
	{
		double el = std::chrono::duration<double>(std::chrono::steady_clock::now() - t0).count();
		int ms	  = (int) std::max(0.0, (timeout_s - el) * 1000.0);
		struct pollfd p = {pfd[0], POLLIN, 0};
		int r			= poll(&p, 1, ms);
		if(r == 0)
		{
			timedout = true;
			break;
		}
		if(r < 0)
		{
			if(errno == EINTR)
				continue;
			break;
		}
		char tmp[65536];
		ssize_t k = read(pfd[0], tmp, sizeof tmp);
		if(k <= 0)
			break;
		buf.append(tmp, (size_t) k);
	}
	close(pfd[0]);
	if(timedout)
		kill(pid, SIGKILL);
	int st = 0;
	waitpid(pid, &st, 0);
	Outcome o;
	if(timedout)
	{
		o.kind = Outcome::TIMEOUT;
		o.msg  = "NON-TERMINATION: case did not finish within " + std::to_string(timeout_s) + " s";
		return o;
	}
	if(!(WIFEXITED(st) && WEXITSTATUS(st) == 0) || !deser(buf, o))
	{
		o	   = Outcome();
		o.kind = Outcome::CRASH;
		o.msg  = "CRASH: child " + (WIFSIGNALED(st) ? "killed by signal " + std::to_string(WTERMSIG(st)) : "exited with status " + std::to_string(WEXITSTATUS(st))) + " (sanitizer report or abort)";
	}
	return o;
}

bool run_in_child(const std::function<std::vector<double>()>& f, std::vector<double>& result, double timeout_s, int* wait_status)
{
	int pfd[2];
	if(pipe(pfd) != 0)
		return false;
	fflush(stdout);
	pid_t pid = fork();
	if(pid == 0)
	{
		close(pfd[0]);
		detail::g_jb = nullptr;	  // an exit in the child is a real exit
		std::vector<double> v = f();
		uint64_t n			  = v.size();
		if(write(pfd[1], &n, 8) != 8) {}
		size_t off = 0, len = v.size() * 8;
		while(off < len)
		{
			ssize_t k = write(pfd[1], (const char*) v.data() + off, len - off);
			if(k <= 0)
				break;
			off += (size_t) k;
		}
		close(pfd[1]);
		_exit(0);
	}
	close(pfd[1]);
	std::string buf;
	auto t0		  = std::chrono::steady_clock::now();
	bool timedout = false;
	for(;;)
	{
		double el = std::chrono::duration<double>(std::chrono::steady_clock::now() - t0).count();
		int ms	  = (int) std::max(0.0, (timeout_s - el) * 1000.0);
		struct pollfd p = {pfd[0], POLLIN, 0};
		int r			= poll(&p, 1, ms);
		if(r == 0)
		{
			timedout = true;
			break;
		}
		if(r < 0)
		{
			if(errno == EINTR)
				continue;
			break;
		}
		char tmp[65536];
		ssize_t k = read(pfd[0], tmp, sizeof tmp);
		if(k <= 0)
			break;
		buf.append(tmp, (size_t) k);
	}
	close(pfd[0]);
	if(timedout)
		kill(pid, SIGKILL);
	int st = 0;
	waitpid(pid, &st, 0);
	if(wait_status)
		*wait_status = timedout ? -1 : st;
	if(timedout || !(WIFEXITED(st) && WEXITSTATUS(st) == 0) || buf.size() < 8)
		return false;
	uint64_t n;
	memcpy(&n, buf.data(), 8);
	if(buf.size() != 8 + n * 8)
		return false;
	result.resize(n);
	memcpy(result.data(), buf.data() + 8, n * 8);
	return true;
}

// ---------------------------------------------------------------------------------------------------------------
// case files
static void write_case_text(const std::string& path, const Clause& cl, const std::vector<uint64_t>& words, int size, const std::string& comment)
{
	std::ofstream f(path);
	f << "# vcase v1\nproperty " << kPropertyId << "\nclause " << cl.name << "\nsize " << size << "\nwords " << words.size() << "\n";
	for(size_t i = 0; i < words.size(); i++)
	{
		char b[32];
		snprintf(b, sizeof b, "0x%" PRIx64, words[i]);
		f << b << ((i % 8 == 7) ? "\n" : " ");
	}
	f << "\n";
	if(!comment.empty())
	{
		std::istringstream is(comment);
		std::string line;
		while(std::getline(is, line))
			f << "# " << line << "\n";
	}
}
static const char kCurMagic[8] = {'V', 'C', 'U', 'R', '1', 0, 0, 0};
static bool read_case(const std::string& path, std::string& clause, std::vector<uint64_t>& words, int& size)
{
	std::ifstream f(path, std::ios::binary);
	if(!f)
		return false;
	char magic[8] = {0};
	f.read(magic, 8);
	if(f.gcount() == 8 && memcmp(magic, kCurMagic, 8) == 0)
	{
		uint32_t ci;
		int32_t sz;
		uint64_t n;
		f.read((char*) &ci, 4);
		f.read((char*) &sz, 4);
		f.read((char*) &n, 8);
		if(ci >= registry().size() || n > (1u << 26))
			return false;
		clause = registry()[ci].name;
		size   = sz;
		words.resize(n);
		f.read((char*) words.data(), (std::streamsize)(n * 8));
		return true;
	}
	f.clear();
	f.seekg(0);
	std::string line;
	size_t nw = 0;
	bool have = false;
	while(std::getline(f, line))
	{
		if(line.empty() || line[0] == '#')
			continue;
		std::istringstream is(line);
		std::string key;
		is >> key;
		if(key == "property")
			continue;
		else if(key == "clause")
			is >> clause;
		else if(key == "size")
			is >> size;
		else if(key == "words")
		{
			is >> nw;
			have = true;
			break;
		}
	}
	if(!have)
		return false;
	words.clear();
	std::string tok;
	while(words.size() < nw && (f >> tok))
	{
		if(tok[0] == '#')
			break;
		words.push_back(strtoull(tok.c_str(), nullptr, 0));
	}
	return words.size() == nw;
}
static const Clause* find_clause(const std::string& name)
{
	for(auto& c : registry())
		if(c.name == name)
			return &c;
	return nullptr;
}

// ---------------------------------------------------------------------------------------------------------------
// statistics
struct ClauseStats
{
	long cases = 0, discards = 0, nontrivial = 0, timeouts = 0;
	std::unordered_set<uint64_t> nt_hashes;
	std::map<std::string, long> classes;
	std::map<std::string, double> worst;
	std::map<std::string, long> excluded;
	std::vector<std::string> samples;
	double wall = 0;
	std::string status = "pass";   // pass | fail | crash | timeout
	std::string fail_msg, fail_file;
};
static std::string jesc(const std::string& s)
{
	std::string r;
	for(unsigned char ch : s)
	{
		if(ch == '"' || ch == '\\')
		{
			r += '\\';
			r += (char) ch;
		}
		else if(ch == '\n')
			r += "\\n";
		else if(ch == '\t')
			r += "\\t";
		else if(ch < 0x20 || ch >= 0x7f)
			r += '?';
		else
			r += (char) ch;
	}
	return r;
}
static std::string jnum(double x)
{
	if(!(x == x) || std::isinf(x))
		return "1e308";
	std::ostringstream os;
	os << std::setprecision(6) << x;
	return os.str();
}

// ---------------------------------------------------------------------------------------------------------------
static int g_cur_fd = -1;
static void write_cur(uint32_t clause_index, const std::vector<uint64_t>& words, int size)
{
	if(g_cur_fd < 0)
		return;
	static std::vector<char> buf;
	size_t len = 24 + words.size() * 8;
	buf.resize(len);
	memcpy(&buf[0], kCurMagic, 8);
	int32_t sz = size;
	uint64_t n = words.size();
	memcpy(&buf[8], &clause_index, 4);
	memcpy(&buf[12], &sz, 4);
	memcpy(&buf[16], &n, 8);
	memcpy(&buf[24], words.data(), words.size() * 8);
	if(pwrite(g_cur_fd, buf.data(), len, 0) < 0) {}
}

static volatile sig_atomic_t g_in_case = 0;
static void on_alarm(int)
{
	// a case exceeded its watchdog in an un-isolated clause: the cur file holds the case; tell the driver and stop
	_exit(97);
}
static void arm_watchdog(double seconds)
{
	struct itimerval it;
	memset(&it, 0, sizeof it);
	it.it_value.tv_sec	= (time_t) seconds;
	it.it_value.tv_usec = (suseconds_t)((seconds - (double) (time_t) seconds) * 1e6);
	setitimer(ITIMER_REAL, &it, nullptr);
}

#ifndef VF_FUZZ
static rc::Gen<std::vector<uint64_t>> words_gen(size_t L)
{
	return [L](const rc::Random& random, int) {
		rc::Random r(random);
		std::vector<uint64_t> v(L);
		for(auto& x : v)
			x = r.next();
		return rc::shrinkable::just(std::move(v));
	};
}

#endif

static void tally(ClauseStats& st, const Outcome& o, const std::vector<uint64_t>& words, const std::string& clname)
{
	st.cases++;
	if(o.kind == Outcome::DISCARD)
		st.discards++;
	if(o.nontrivial && o.kind == Outcome::PASS)
	{
		st.nontrivial++;
		st.nt_hashes.insert(hash_words(words.data(), std::min(words.size(), o.consumed), (uint64_t) std::hash<std::string>()(clname)));
	}
	for(auto& c : o.classes)
		st.classes[c]++;
	for(auto& w : o.worst)
	{
		auto it = st.worst.find(w.first);
		if(it == st.worst.end() || w.second > it->second)
			st.worst[w.first] = w.second;
	}
	for(auto& e : o.excluded)
		st.excluded[e]++;
}

#ifndef VF_FUZZ
static int mode_run(const std::vector<std::string>& clause_names, uint64_t seed, double n_scale, bool thorough, int max_size, const std::string& out_path, const std::string& fail_dir, int shard, int nshards)
{
	std::map<std::string, ClauseStats> stats;
	int rc_exit = 0;
	signal(SIGALRM, on_alarm);
	for(uint32_t ci = 0; ci < registry().size(); ci++)
	{
		const Clause& cl = registry()[ci];
		if(!clause_names.empty() && std::find(clause_names.begin(), clause_names.end(), cl.name) == clause_names.end())
			continue;
		ClauseStats& st = stats[cl.name];
		long n_total	= thorough ? cl.n_thorough : cl.n_quick;
		long n			= (long) std::ceil((double) n_total * n_scale / nshards);
		if(n < 1)
			n = 1;
		auto t0 = std::chrono::steady_clock::now();
		rc::detail::TestParams params;
		uint64_t sx			   = seed ^ (0x9e3779b97f4a7c15ULL * (uint64_t)(shard + 1)) ^ std::hash<std::string>()(cl.name);
		params.seed			   = splitmix64(sx);
		params.maxSuccess	   = (int) n;
		params.maxSize		   = max_size;
		params.disableShrinking = true;
		rc::detail::TestMetadata meta;
		meta.id = meta.description = std::string(kPropertyId) + "." + cl.name;
		auto gen				   = words_gen((size_t) cl.words);
		int n_samples_nt = 0, n_samples_any = 0;
		auto prop = [&]() {
			std::vector<uint64_t> words = *gen;
			int size					= *rc::gen::withSize([](int s) { return rc::gen::just(s); });
			write_cur(ci, words, size);
			Outcome o;
			if(cl.isolate)
				o = run_forked(cl, words, size, false, cl.timeout_s);
			else
			{
				arm_watchdog(cl.timeout_s);
				o = run_inproc(cl, words, size, false);
				arm_watchdog(0);
			}
			tally(st, o, words, cl.name);
			if(o.kind == Outcome::PASS)
			{
				bool want = (o.nontrivial && n_samples_nt < 4) || (n_samples_any < 1);
				if(want && shard == 0)
				{
					Outcome v = cl.isolate ? run_forked(cl, words, size, true, cl.timeout_s) : run_inproc(cl, words, size, true);
					std::string t = v.log;
					if(t.size() > 1200)
						t = t.substr(0, 1200) + "...";
					st.samples.push_back(t);
					(o.nontrivial ? n_samples_nt : n_samples_any)++;
				}
				return;
			}
			if(o.kind == Outcome::DISCARD)
				return;
			// failure: save the case, stop this clause
			st.status = o.kind == Outcome::FAIL ? "fail" : (o.kind == Outcome::CRASH ? "crash" : "timeout");
			st.fail_msg = o.msg;
			std::vector<uint64_t> w2(words.begin(), words.begin() + (long) std::min(words.size(), std::max<size_t>(o.consumed, 1)));
			if(o.kind != Outcome::FAIL)
				w2 = words;
			std::ostringstream fn;
			fn << fail_dir << "/" << kPropertyId << "." << cl.name << ".s" << shard << ".case";
			st.fail_file = fn.str();
			write_case_text(st.fail_file, cl, w2, size, o.msg);
			RC_FAIL(o.msg);
		};
		auto result = rc::detail::checkTestable(prop, meta, params);
		st.wall		= std::chrono::duration<double>(std::chrono::steady_clock::now() - t0).count();
		if(!result.template is<rc::detail::SuccessResult>())
		{
			rc_exit = 1;
			if(st.status == "pass")
			{
				st.status = "fail";
				std::ostringstream os;
				rc::detail::printResultMessage(result, os);
				st.fail_msg = "rapidcheck: " + os.str();
			}
		}
	}
	// write statistics
	std::ostringstream js;
	js << "{\"property\":\"" << kPropertyId << "\",\"shard\":" << shard << ",\"seed\":" << seed << ",\"clauses\":{";
	bool first = true;
	std::ofstream hf(out_path + ".hashes", std::ios::binary);
	for(auto& kv : stats)
	{
		const ClauseStats& st = kv.second;
		const Clause* cl	  = find_clause(kv.first);
		if(!first)
			js << ",";
		first = false;
		js << "\"" << kv.first << "\":{\"cases\":" << st.cases << ",\"discards\":" << st.discards << ",\"nontrivial\":" << st.nontrivial
		   << ",\"distinct_nontrivial\":" << st.nt_hashes.size() << ",\"wall_s\":" << jnum(st.wall) << ",\"status\":\"" << st.status << "\""
		   << ",\"rule\":\"" << jesc(cl ? cl->nt_rule : "") << "\",\"fail_msg\":\"" << jesc(st.fail_msg) << "\",\"fail_file\":\"" << jesc(st.fail_file) << "\"";
		js << ",\"classes\":{";
		bool f2 = true;
		for(auto& c : st.classes)
		{
			js << (f2 ? "" : ",") << "\"" << jesc(c.first) << "\":" << c.second;
			f2 = false;
		}
		js << "},\"worst_ratio\":{";
		f2 = true;
		for(auto& c : st.worst)
		{
			js << (f2 ? "" : ",") << "\"" << jesc(c.first) << "\":" << jnum(c.second);
			f2 = false;
		}
		js << "},\"excluded_known\":{";
		f2 = true;
		for(auto& c : st.excluded)
		{
			js << (f2 ? "" : ",") << "\"" << jesc(c.first) << "\":" << c.second;
			f2 = false;
		}
		js << "},\"samples\":[";
		f2 = true;
		for(auto& s : st.samples)
		{
			js << (f2 ? "" : ",") << "\"" << jesc(s) << "\"";
			f2 = false;
		}
		js << "]}";
		for(uint64_t h : st.nt_hashes)
			hf.write((const char*) &h, 8);
	}
	js << "}}\n";
	std::ofstream of(out_path);
	of << js.str();
	return rc_exit;
}

#endif

static int mode_replay(const std::string& path, bool quiet)
{
	std::string clname;
	std::vector<uint64_t> words;
	int size = 100;
	if(!read_case(path, clname, words, size))
	{
		out("REPLAY-ERROR cannot read case file " + path + "\n");
		return 2;
	}
	const Clause* cl = find_clause(clname);
	if(!cl)
	{
		out("REPLAY-ERROR unknown clause " + clname + "\n");
		return 2;
	}
	g_live_replay = !quiet;
	if(!quiet)
		out("case " + std::string(kPropertyId) + "." + clname + " size=" + std::to_string(size) + " words=" + std::to_string(words.size()) + "\n");
	Outcome o = run_forked(*cl, words, size, true, std::max(60.0, cl->timeout_s * 3));
	if(false)
	{
		out("case " + std::string(kPropertyId) + "." + clname + " size=" + std::to_string(size) + " words=" + std::to_string(words.size()) + " consumed=" + std::to_string(o.consumed) + "\n");
		out(o.log);
	}
	static const char* names[] = {"PASS", "FAIL", "DISCARD", "CRASH", "TIMEOUT"};
	out(std::string("REPLAY-RESULT ") + names[o.kind] + (o.msg.empty() ? "" : " :: " + o.msg) + "\n");
	return o.kind == Outcome::PASS || o.kind == Outcome::DISCARD ? 0 : 1;
}

// delta-debugging style shrink of a failing case; every candidate runs in a forked child
static int mode_shrink(const std::string& path, const std::string& out_path, long budget, double max_seconds)
{
	std::string clname;
	std::vector<uint64_t> words;
	int size = 100;
	if(!read_case(path, clname, words, size))
		return 2;
	const Clause* cl = find_clause(clname);
	if(!cl)
		return 2;
	double tmo	  = std::max(10.0, cl->timeout_s);
	Outcome first = run_forked(*cl, words, size, false, tmo);
	if(first.kind == Outcome::PASS || first.kind == Outcome::DISCARD)
	{
		out("SHRINK: case does not fail\n");
		return 3;
	}
	Outcome::Kind kind = first.kind;
	auto t0			   = std::chrono::steady_clock::now();
	long evals		   = 0;
	Outcome best	   = first;
	auto fails		   = [&](const std::vector<uint64_t>& w, int sz) {
		if(evals >= budget || std::chrono::duration<double>(std::chrono::steady_clock::now() - t0).count() > max_seconds)
			return false;
		evals++;
		Outcome o = run_forked(*cl, w, sz, false, kind == Outcome::TIMEOUT ? tmo : tmo);
		if(o.kind == kind)
		{
			best = o;
			return true;
		}
		return false;
	};
	if(kind == Outcome::FAIL && first.consumed < words.size())
	{
		std::vector<uint64_t> w2(words.begin(), words.begin() + (long) std::max<size_t>(first.consumed, 1));
		if(fails(w2, size))
			words = w2;
	}
	// smaller size parameter first
	for(int sz : {0, 10, 30, 60})
		if(sz < size && fails(words, sz))
		{
			size = sz;
			break;
		}
	bool progress = true;
	while(progress)
	{
		progress = false;
		// 1. delete chunks
		for(size_t chunk = std::max<size_t>(words.size() / 2, 1); chunk >= 1; chunk /= 2)
		{
			for(size_t start = 0; start + chunk <= words.size();)
			{
				std::vector<uint64_t> w2(words.begin(), words.begin() + (long) start);
				w2.insert(w2.end(), words.begin() + (long) (start + chunk), words.end());
				if(fails(w2, size))
				{
					words	 = w2;
					progress = true;
				}
				else
					start += chunk;
			}
			if(chunk == 1)
				break;
		}
		// 2. lower words: 0, then binary search towards 0
		for(size_t i = 0; i < words.size(); i++)
		{
			if(words[i] == 0)
				continue;
			std::vector<uint64_t> w2 = words;
			w2[i]					 = 0;
			if(fails(w2, size))
			{
				words	 = w2;
				progress = true;
				continue;
			}
			uint64_t lo = 0, hi = words[i];	  // invariant: hi fails, lo passes
			for(int it = 0; it < 12 && hi - lo > 1; it++)
			{
				uint64_t mid = lo + (hi - lo) / 2;
				w2[i]		 = mid;
				if(fails(w2, size))
				{
					hi		 = mid;
					progress = true;
				}
				else
					lo = mid;
			}
			words[i] = hi;
		}
		if(evals >= budget)
			break;
	}
	write_case_text(out_path, *cl, words, size, best.msg);
	out("SHRINK: " + std::to_string(evals) + " candidates, " + std::to_string(words.size()) + " words left\n");
	return 0;
}
}	// namespace vf

#ifdef VF_FUZZ
// ---------------------------------------------------------------------------------------------------------------
// libFuzzer entry: the input bytes are the choice sequence (byte 0 selects the clause, the rest are little-endian 64-bit words)
namespace vf
{
static long g_fz_execs = 0, g_fz_pass = 0, g_fz_discard = 0, g_fz_nontrivial = 0;
static std::string g_fz_out = ".";
static int g_fz_real_out = 1, g_fz_real_err = 2;
static void fuzz_write_stats()
{
	std::ofstream f(g_fz_out + "/fuzzstats." + std::to_string((long) getpid()) + ".json");
	f << "{\"execs\":" << g_fz_execs << ",\"pass\":" << g_fz_pass << ",\"discard\":" << g_fz_discard << ",\"nontrivial\":" << g_fz_nontrivial << "}\n";
}
}	// namespace vf
extern "C" int LLVMFuzzerInitialize(int*, char***)
{
	using namespace vf;
	if(const char* vd = getenv("VERIF_DIR"))
		g_verif_dir = vd;
	if(const char* o = getenv("VF_FUZZ_OUT"))
		g_fz_out = o;
	g_fz_real_out	 = dup(1);
	g_fz_real_err	 = dup(2);
	detail::g_out_fd = g_fz_real_out;
	int fd			 = memfd_create("vf_capture", 0);
	detail::g_cap_fd = fd;
	atexit(fuzz_write_stats);
	return 0;
}
extern "C" int LLVMFuzzerTestOneInput(const uint8_t* data, size_t size)
{
	using namespace vf;
	static std::vector<const Clause*> usable;
	if(usable.empty())
	{
		const char* want = getenv("VF_FUZZ_CLAUSE");
		for(auto& c : registry())
			// not under the fuzzer: fork-isolated clauses, the clause whose children really call exit (libFuzzer's exit hook would report each as a
			// crash), and the batch clauses (one case = hundreds of minimisations / integrations)
			if(!c.isolate && c.name != "real_process" && c.name != "nelder_mead_convergence_rate" && c.name != "unbiasedness" && !(std::string(kPropertyId) == "C13" && c.name != "methods_1d") && (!want || c.name == want))
				usable.push_back(&c);
		if(usable.empty())
			return 0;
	}
	if(size < 1)
		return 0;
	const Clause& cl = *usable[data[0] % usable.size()];
	std::vector<uint64_t> words((size - 1 + 7) / 8, 0);
	if(size > 1)
		memcpy(words.data(), data + 1, size - 1);
	// library output goes to the capture file while the case runs; libFuzzer's own output stays on the real stderr
	fflush(stdout);
	dup2(detail::g_cap_fd, 1);
	dup2(detail::g_cap_fd, 2);
	Outcome o = run_inproc(cl, words, 100, false);
	fflush(stdout);
	dup2(g_fz_real_out, 1);
	dup2(g_fz_real_err, 2);
	g_fz_execs++;
	if(o.kind == Outcome::PASS)
	{
		g_fz_pass++;
		if(o.nontrivial)
			g_fz_nontrivial++;
	}
	else if(o.kind == Outcome::DISCARD)
		g_fz_discard++;
	else
	{
		std::vector<uint64_t> w2(words.begin(), words.begin() + (long) std::min(words.size(), std::max<size_t>(o.consumed, 1)));
		char name[64];
		snprintf(name, sizeof name, "/fuzzfail.%ld.%ld.case", (long) getpid(), g_fz_execs);
		write_case_text(g_fz_out + name, cl, w2, 100, o.msg);
		fuzz_write_stats();
		out("FUZZ-FAILURE " + g_fz_out + name + " :: " + o.msg + "\n");
		abort();
	}
	return 0;
}
#else
int main(int argc, char** argv)
{
	using namespace vf;
	std::vector<std::string> args(argv + 1, argv + argc);
	auto opt = [&](const std::string& k, const std::string& def) {
		for(size_t i = 0; i + 1 < args.size(); i++)
			if(args[i] == k)
				return args[i + 1];
		return def;
	};
	auto has = [&](const std::string& k) { return std::find(args.begin(), args.end(), k) != args.end(); };
	if(const char* vd = getenv("VERIF_DIR"))
		g_verif_dir = vd;
	if(has("--list"))
	{
		for(auto& c : registry())
			printf("%s words=%d quick=%ld thorough=%ld isolate=%d rule=%s\n", c.name.c_str(), c.words, c.n_quick, c.n_thorough, (int) c.isolate, c.nt_rule.c_str());
		return 0;
	}
	detail::capture_init();
	if(has("--fuzz-input"))
	{
		// convert a raw libFuzzer input (byte 0: clause among the non-isolated ones, rest: little-endian words) into a case file
		std::ifstream f(opt("--fuzz-input", ""), std::ios::binary);
		std::string raw((std::istreambuf_iterator<char>(f)), std::istreambuf_iterator<char>());
		std::vector<const Clause*> usable;
		for(auto& c : registry())
			if(!c.isolate)
				usable.push_back(&c);
		if(raw.empty() || usable.empty())
			return 2;
		const Clause& cl = *usable[(unsigned char) raw[0] % usable.size()];
		std::vector<uint64_t> words((raw.size() - 1 + 7) / 8, 0);
		if(raw.size() > 1)
			memcpy(words.data(), raw.data() + 1, raw.size() - 1);
		write_case_text(opt("--out", "fuzz.case"), cl, words, 100, "converted from libFuzzer input " + opt("--fuzz-input", ""));
		return 0;
	}
	if(has("--replay"))
		return mode_replay(opt("--replay", ""), has("--quiet"));
	if(has("--shrink"))
		return mode_shrink(opt("--shrink", ""), opt("--out", "shrunk.case"), atol(opt("--budget", "3000").c_str()), atof(opt("--max-seconds", "120").c_str()));
	if(has("--run"))
	{
		std::vector<std::string> names;
		std::string sel = opt("--run", "all");
		if(sel != "all")
		{
			std::istringstream is(sel);
			std::string t;
			while(std::getline(is, t, ','))
				names.push_back(t);
		}
		std::string cur = opt("--cur", "");
		if(!cur.empty())
			g_cur_fd = open(cur.c_str(), O_CREAT | O_RDWR | O_TRUNC, 0644);
		return mode_run(names, strtoull(opt("--seed", "1").c_str(), nullptr, 0), atof(opt("--scale", "1").c_str()), opt("--tier", "quick") == "thorough", atoi(opt("--max-size", "100").c_str()), opt("--out", "stats.json"), opt("--fail-dir", "."), atoi(opt("--shard", "0").c_str()), atoi(opt("--nshards", "1").c_str()));
	}
	out("usage: --list | --run all|c1,c2 --seed S --tier quick|thorough --scale X --shard k --nshards K --out F --fail-dir D --cur F | --replay F | --shrink F --out F2\n");
	return 2;
}
#endif
