#include "refmath.hpp"

#include <boost/math/distributions/binomial.hpp>
#include <boost/math/distributions/chi_squared.hpp>
#include <boost/math/distributions/normal.hpp>
#include <boost/math/distributions/poisson.hpp>
#include <boost/math/special_functions/binomial.hpp>
#include <boost/math/special_functions/erf.hpp>
#include <boost/math/special_functions/gamma.hpp>
#include <cmath>

namespace vf
{
namespace ref
{
namespace bm = boost::math;
typedef bm::policies::policy<bm::policies::promote_double<false>, bm::policies::overflow_error<bm::policies::ignore_error>, bm::policies::underflow_error<bm::policies::ignore_error>,
							 bm::policies::domain_error<bm::policies::ignore_error>, bm::policies::pole_error<bm::policies::ignore_error>, bm::policies::evaluation_error<bm::policies::ignore_error>>
	Pol;
long double lgamma(long double x) { return bm::lgamma(x, Pol()); }
long double tgamma(long double x) { return bm::tgamma(x, Pol()); }
long double gamma_p(long double a, long double x) { return bm::gamma_p(a, x, Pol()); }
long double gamma_q(long double a, long double x) { return bm::gamma_q(a, x, Pol()); }
long double gamma_p_inv(long double a, long double p) { return bm::gamma_p_inv(a, p, Pol()); }
long double gamma_q_inv(long double a, long double q) { return bm::gamma_q_inv(a, q, Pol()); }
long double binomial(unsigned n, unsigned k) { return bm::binomial_coefficient<long double>(n, k, Pol()); }
long double erf_inv(long double p) { return bm::erf_inv(p, Pol()); }
long double erf(long double x) { return bm::erf(x, Pol()); }
long double erfc(long double x) { return bm::erfc(x, Pol()); }
long double normal_cdf(long double x, long double mu, long double sigma) { return 0.5L * bm::erfc(-(x - mu) / (sigma * sqrtl(2.0L)), Pol()); }
long double normal_quantile(long double p, long double mu, long double sigma) { return mu + sigma * sqrtl(2.0L) * bm::erf_inv(2.0L * p - 1.0L, Pol()); }
long double chi2_cdf(long double x, long double dof) { return x <= 0 ? 0.0L : bm::gamma_p(dof / 2, x / 2, Pol()); }
long double chi2_pdf(long double x, long double dof)
{
	if(x <= 0)
		return 0.0L;
	return expl(-(dof / 2) * logl(2.0L) - bm::lgamma(dof / 2, Pol()) + (dof / 2 - 1) * logl(x) - x / 2);
}
long double poisson_cdf(long double mean, unsigned k) { return mean == 0 ? 1.0L : bm::gamma_q((long double) k + 1.0L, mean, Pol()); }
long double poisson_pmf(long double mean, unsigned k)
{
	if(mean == 0)
		return k == 0 ? 1.0L : 0.0L;
	return expl(k * logl(mean) - mean - bm::lgamma((long double) k + 1.0L, Pol()));
}
long double binomial_pmf(unsigned n, long double p, unsigned k)
{
	if(k > n)
		return 0.0L;
	if(p == 0)
		return k == 0 ? 1.0L : 0.0L;
	if(p == 1)
		return k == n ? 1.0L : 0.0L;
	return bm::binomial_coefficient<long double>(n, k, Pol()) * powl(p, k) * powl(1 - p, n - k);
}
long double binomial_cdf(unsigned n, long double p, unsigned k)
{
	long double s = 0;
	for(unsigned i = 0; i <= k && i <= n; i++)
		s += binomial_pmf(n, p, i);
	return s;
}

// Dawson: for |x|<6 the Taylor series F(x)=sum_n (-1)^n 2^n x^(2n+1)/(2n+1)!! has alternating cancellation, so use instead
// F(x)=exp(-x^2)*sum_n x^(2n+1)/(n!(2n+1)) (all terms positive); beyond that the asymptotic/continued fraction form.
long double dawson(long double x)
{
	long double ax = fabsl(x);
	long double r;
	if(ax < 6.5L)
	{
		long double term = ax, sum = 0, x2 = ax * ax;	// term_n = x^(2n+1)/n!
		for(int n = 0; n < 400; n++)
		{
			long double add = term / (2 * n + 1);
			sum += add;
			if(add < 1e-22L * sum)
				break;
			term *= x2 / (n + 1);
		}
		r = expl(-x2) * sum;
	}
	else
	{
		// asymptotic series F(x) ~ 1/(2x) * sum_k (2k-1)!!/(2x^2)^k, terms decrease until k~x^2 (>42): converges to 1e-19 here
		long double t = 1, sum = 1, y = 1 / (2 * ax * ax);
		for(int k = 1; k < 60; k++)
		{
			long double nt = t * (2 * k - 1) * y;
			if(nt > t || nt < 1e-22L)
				break;
			t = nt;
			sum += t;
		}
		r = sum / (2 * ax);
	}
	return x < 0 ? -r : r;
}

// normalized associated Legendre functions by stable upward recurrence in l
static long double Nlm(int l, int m) { return sqrtl((2 * l + 1) / (4 * M_PIl) * expl(bm::lgamma((long double) (l - m + 1), Pol()) - bm::lgamma((long double) (l + m + 1), Pol()))); }
static long double Plm(int l, int m, long double x)   // m>=0, with Condon-Shortley phase
{
	long double pmm = 1.0L;
	if(m > 0)
	{
		long double somx2 = sqrtl((1 - x) * (1 + x)), fact = 1;
		for(int i = 1; i <= m; i++)
		{
			pmm *= -fact * somx2;
			fact += 2;
		}
	}
	if(l == m)
		return pmm;
	long double pmmp1 = x * (2 * m + 1) * pmm;
	if(l == m + 1)
		return pmmp1;
	long double pll = 0;
	for(int ll = m + 2; ll <= l; ll++)
	{
		pll	  = (x * (2 * ll - 1) * pmmp1 - (ll + m - 1) * pmm) / (ll - m);
		pmm	  = pmmp1;
		pmmp1 = pll;
	}
	return pll;
}
std::complex<long double> Ylm(int l, int m, long double theta, long double phi)
{
	if(l < 0 || std::abs(m) > l)
		return 0;
	int am		  = std::abs(m);
	long double v = Nlm(l, am) * Plm(l, am, cosl(theta));
	std::complex<long double> y = v * std::complex<long double>(cosl(am * phi), sinl(am * phi));
	if(m < 0)
	{
		y = std::conj(y);
		if(am % 2)
			y = -y;
	}
	return y;
}
// dY/dtheta = 1/2 [ sqrt((l-m)(l+m+1)) e^{-i phi} Y_{l,m+1} - sqrt((l+m)(l-m+1)) e^{i phi} Y_{l,m-1} ]
std::complex<long double> dYlm_dtheta(int l, int m, long double theta, long double phi)
{
	std::complex<long double> em(cosl(phi), -sinl(phi)), ep(cosl(phi), sinl(phi));
	std::complex<long double> a = 0, b = 0;
	if(m + 1 <= l)
		a = sqrtl((long double) (l - m) * (l + m + 1)) * em * Ylm(l, m + 1, theta, phi);
	if(m - 1 >= -l)
		b = sqrtl((long double) (l + m) * (l - m + 1)) * ep * Ylm(l, m - 1, theta, phi);
	return 0.5L * (a - b);
}

long double integrate(long double (*f)(long double, void*), void* ctx, long double a, long double b, int panels)
{
	// 20-point Gauss-Legendre nodes/weights on [-1,1], computed once by Newton iteration in long double
	static long double xs[20], ws[20];
	static bool init = false;
	if(!init)
	{
		const int n = 20;
		for(int i = 0; i < n; i++)
		{
			long double z = cosl(M_PIl * (i + 0.75L) / (n + 0.5L)), pp = 0;
			for(int it = 0; it < 100; it++)
			{
				long double p1 = 1, p2 = 0;
				for(int j = 0; j < n; j++)
				{
					long double p3 = p2;
					p2			   = p1;
					p1			   = ((2 * j + 1) * z * p2 - j * p3) / (j + 1);
				}
				pp			   = n * (z * p1 - p2) / (z * z - 1);
				long double z1 = z;
				z			   = z1 - p1 / pp;
				if(fabsl(z - z1) < 1e-19L)
					break;
			}
			xs[i] = z;
			ws[i] = 2 / ((1 - z * z) * pp * pp);
		}
		init = true;
	}
	long double sum = 0, h = (b - a) / panels;
	for(int p = 0; p < panels; p++)
	{
		long double lo = a + p * h, mid = lo + h / 2, s = 0;
		for(int i = 0; i < 20; i++)
			s += ws[i] * f(mid + xs[i] * h / 2, ctx);
		sum += s * h / 2;
	}
	return sum;
}
}	// namespace ref
}	// namespace vf
