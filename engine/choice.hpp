// Choice-sequence source: every generator in props/ is a *decoder* from a flat sequence of 64-bit words
// (produced by rapidcheck, by libFuzzer, or read from a replay file) into structured arguments.
// An exhausted sequence yields zeros and zero always decodes to the simplest choice, so shrinking a
// sequence (deleting chunks, lowering words) shrinks the decoded case.
#pragma once
#include <cmath>
#include <cstdint>
#include <cstddef>
#include <initializer_list>
#include <limits>
#include <vector>

namespace vf
{
struct Src
{
	const uint64_t* w = nullptr;
	size_t n		  = 0;
	size_t pos		  = 0;	 // number of words consumed so far (may exceed n)
	int size		  = 100;   // rapidcheck's size parameter (0..max_size); decoders may scale case complexity with it

	Src() {}
	Src(const std::vector<uint64_t>& v, int sz = 100)
	: w(v.data()), n(v.size()), size(sz) {}

	uint64_t next()
	{
		uint64_t v = pos < n ? w[pos] : 0;
		pos++;
		return v;
	}
	// integer in [0,k)
	uint64_t below(uint64_t k) { return k <= 1 ? (next(), 0) : next() % k; }
	// integer in [lo,hi]
	long range(long lo, long hi) { return hi <= lo ? (next(), lo) : lo + (long) (next() % (uint64_t) (hi - lo + 1)); }
	// integer in [lo,hi] whose upper end grows with size (size 100 -> hi)
	long sized(long lo, long hi)
	{
		long h = lo + (long) std::llround((double) (hi - lo) * std::min(100, std::max(0, size)) / 100.0);
		return range(lo, h);
	}
	bool coin() { return next() & 1u; }
	double unit() { return (double) (next() >> 11) * 1.1102230246251565404e-16; }	// [0,1)
	bool chance(double p) { return unit() < p; }
	double uniform(double a, double b) { return a + unit() * (b - a); }
	// log-uniform magnitude in [lo,hi], lo>0
	double logu(double lo, double hi) { return std::exp(std::log(lo) + unit() * (std::log(hi) - std::log(lo))); }
	double sign() { return coin() ? -1.0 : 1.0; }
	// index drawn with the given relative weights
	int pick(std::initializer_list<double> weights)
	{
		double tot = 0;
		for(double x : weights)
			tot += x;
		double u = unit() * tot;
		int i	 = 0;
		for(double x : weights)
		{
			if(u < x)
				return i;
			u -= x;
			i++;
		}
		return (int) weights.size() - 1;
	}
	// small signed integer (exactly representable, keeps arithmetic exact)
	double small_int(int m = 9) { return (double) range(-m, m); }
	// finite double of mixed magnitude: sign * 10^[lo10,hi10], sometimes 0, sometimes an integer
	double mixed(double lo10 = -8, double hi10 = 8)
	{
		switch(pick({1, 3, 6}))
		{
			case 0: return 0.0;
			case 1: return small_int(20);
			default: return sign() * std::pow(10.0, uniform(lo10, hi10));
		}
	}
};

inline uint64_t splitmix64(uint64_t& x)
{
	uint64_t z = (x += 0x9e3779b97f4a7c15ULL);
	z		   = (z ^ (z >> 30)) * 0xbf58476d1ce4e5b9ULL;
	z		   = (z ^ (z >> 27)) * 0x94d049bb133111ebULL;
	return z ^ (z >> 31);
}
inline uint64_t hash_words(const uint64_t* w, size_t n, uint64_t h = 0x12345678abcdefULL)
{
	for(size_t i = 0; i < n; i++)
	{
		h ^= w[i] + 0x9e3779b97f4a7c15ULL + (h << 6) + (h >> 2);
		h *= 0xff51afd7ed558ccdULL;
		h ^= h >> 33;
	}
	return h;
}
}	// namespace vf
