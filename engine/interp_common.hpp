// Table generators shared by the interpolation properties C01 C08 C09 (and the C10 guards).
#pragma once
#include <cmath>
#include <sstream>
#include <vector>

#include "choice.hpp"

namespace vf
{
struct Table
{
	std::vector<double> x, y;
	double xdim = -1.0, fdim = -1.0;   // unit factors handed to the constructor (<=0: none)
	double max_gap_ratio = 1.0;		   // largest ratio between neighbouring intervals
	bool limiter_active	 = false;	   // some interior knot where Steffen's limiter changes the slope (decided in long double)
	std::string kind;
	// values as stored by the object (after unit factors)
	std::vector<double> X() const
	{
		std::vector<double> r = x;
		if(xdim > 0)
			for(auto& v : r)
				v *= xdim;
		return r;
	}
	std::vector<double> Y() const
	{
		std::vector<double> r = y;
		if(fdim > 0)
			for(auto& v : r)
				v *= fdim;
		return r;
	}
};

inline double ulp_of(double v)
{
	v = std::fabs(v);
	return std::nextafter(v, INFINITY) - v;
}

// strictly increasing abscissae: x0 + cumulative positive gaps; neighbouring gap ratios up to 10^ratio_decades
inline std::vector<double> gen_abscissae(Src& s, int N, double ratio_decades, double* max_ratio = nullptr)
{
	std::vector<double> x(N);
	double base = std::pow(10.0, s.uniform(-6, 6));
	int pattern = s.pick({3, 3, 2, 1});	  // uniform, random walk of log-gap, alternating big/small, exact dyadic uniform
	double x0;
	switch(s.pick({3, 2, 2}))
	{
		case 0: x0 = 0.0; break;
		case 1: x0 = s.sign() * base * std::pow(10.0, s.uniform(-2, 3)); break;
		default: x0 = -base * N * s.unit(); break;	 // domain straddles the origin
	}
	if(pattern == 3)
	{
		base = std::ldexp(1.0, (int) s.range(-10, 10));
		x0	 = base * (double) s.range(-64, 64);
	}
	x[0]		 = x0;
	double lg	 = 0.0, prev_gap = 0, mr = 1.0;
	double swing = s.uniform(0, ratio_decades);
	for(int i = 1; i < N; i++)
	{
		double gap;
		if(pattern == 0 || pattern == 3)
			gap = base;
		else if(pattern == 1)
		{
			lg += s.uniform(-1, 1) * std::min(swing, 3.0);
			if(lg > swing / 2)
				lg = swing / 2;
			if(lg < -swing / 2)
				lg = -swing / 2;
			gap = base * std::pow(10.0, lg);
		}
		else
			gap = base * ((i % 2) ? 1.0 : std::pow(10.0, -swing)) * (1.0 + 0.25 * s.unit());
		double nx = x[i - 1] + gap;
		if(!(nx > x[i - 1]))
			nx = std::nextafter(x[i - 1], INFINITY);
		x[i]		  = nx;
		double actual = x[i] - x[i - 1];
		if(i > 1)
			mr = std::max(mr, std::max(actual / prev_gap, prev_gap / actual));
		prev_gap = actual;
	}
	if(max_ratio)
		*max_ratio = mr;
	return x;
}

// ordinates: mixture of mixed sign/magnitude, plateaus, sign changes, isolated spikes, monotone runs
inline std::vector<double> gen_ordinates(Src& s, int N, std::string* kind = nullptr)
{
	std::vector<double> y(N);
	int mode		 = s.pick({3, 2, 2, 2, 2, 1});
	double mag		 = std::pow(10.0, s.uniform(-20, 20));
	const char* nm[] = {"random_walk", "mixed_magnitude", "plateaus", "spikes", "monotone_runs", "small_integers"};
	if(kind)
		*kind = nm[mode];
	double v = s.sign() * mag * s.unit();
	int run	 = 0;
	double dir = 1;
	for(int i = 0; i < N; i++)
	{
		switch(mode)
		{
			case 0: v += mag * s.uniform(-1, 1); y[i] = v; break;
			case 1: y[i] = s.chance(0.1) ? 0.0 : s.sign() * std::pow(10.0, s.uniform(-20, 20)); break;
			case 2:
				if(run <= 0)
				{
					v	= mag * s.uniform(-1, 1);
					run = (int) s.range(1, 5);
				}
				run--;
				y[i] = v;
				break;
			case 3: y[i] = s.chance(0.12) ? s.sign() * mag * std::pow(10.0, s.uniform(1, 6)) : mag * s.uniform(-1, 1) * 1e-3; break;
			case 4:
				if(run <= 0)
				{
					dir = s.sign();
					run = (int) s.range(2, 8);
				}
				run--;
				v += dir * mag * s.unit() * (s.chance(0.15) ? 0.0 : 1.0);
				y[i] = v;
				break;
			default: y[i] = s.small_int(20); break;
		}
	}
	return y;
}

inline Table gen_table(Src& s, int nmin, int nmax, double ratio_decades = 9.0, bool units = true)
{
	Table t;
	int N = (int) s.sized(nmin, nmax);
	t.x	  = gen_abscissae(s, N, ratio_decades, &t.max_gap_ratio);
	t.y	  = gen_ordinates(s, N, &t.kind);
	if(units && s.chance(0.25))
	{
		int which = (int) s.range(0, 2);
		if(which != 1)
			t.xdim = s.coin() ? std::pow(10.0, s.uniform(-30, 30)) : std::ldexp(1.0, (int) s.range(-40, 40));
		if(which != 0)
			t.fdim = s.coin() ? std::pow(10.0, s.uniform(-30, 30)) : std::ldexp(1.0, (int) s.range(-40, 40));
		if(s.chance(0.2))
			(which == 0 ? t.fdim : t.xdim) = s.coin() ? 0.0 : -3.0;	  // "<=0 means none"
	}
	// the unit factor must not merge neighbouring abscissae (the constructor checks monotonicity before scaling)
	{
		std::vector<double> Xs = t.X();
		for(int i = 1; i < N; i++)
			if(!(Xs[i] > Xs[i - 1]) || !std::isfinite(Xs[i]))
				t.xdim = -1.0;
	}
	// is the limiter active somewhere? (long double, on the stored values)
	std::vector<double> X = t.X(), Y = t.Y();
	for(int i = 1; i + 1 < N && !t.limiter_active; i++)
	{
		long double h0 = (long double) X[i] - X[i - 1], h1 = (long double) X[i + 1] - X[i];
		long double s0 = ((long double) Y[i] - Y[i - 1]) / h0, s1 = ((long double) Y[i + 1] - Y[i]) / h1;
		long double p  = (s0 * h1 + s1 * h0) / (h0 + h1);
		if(s0 * s1 <= 0 || fabsl(p) > 2 * std::min(fabsl(s0), fabsl(s1)))
			t.limiter_active = true;
	}
	return t;
}

inline std::string show_table(const Table& t, size_t maxn = 10)
{
	std::ostringstream os;
	os.precision(17);
	os << "N=" << t.x.size() << " kind=" << t.kind << " xdim=" << t.xdim << " fdim=" << t.fdim << " max_gap_ratio=" << t.max_gap_ratio << " x={";
	for(size_t i = 0; i < t.x.size() && i < maxn; i++)
		os << (i ? "," : "") << t.x[i];
	os << (t.x.size() > maxn ? ",...}" : "}") << " y={";
	for(size_t i = 0; i < t.y.size() && i < maxn; i++)
		os << (i ? "," : "") << t.y[i];
	os << (t.y.size() > maxn ? ",...}" : "}");
	return os.str();
}
}	// namespace vf
