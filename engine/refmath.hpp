// Independent reference values (boost::math evaluated in long double, own long double code).  Declarations only:
// the definitions live in refmath.cpp, compiled once and linked into every property binary.
#pragma once
#include <complex>
#include <vector>
namespace vf
{
namespace ref
{
long double lgamma(long double x);
long double tgamma(long double x);
long double gamma_p(long double a, long double x);	 // regularized lower P(a,x)
long double gamma_q(long double a, long double x);	 // regularized upper Q(a,x)
long double gamma_p_inv(long double a, long double p);
long double gamma_q_inv(long double a, long double q);
long double binomial(unsigned n, unsigned k);
long double erf_inv(long double p);
long double erf(long double x);
long double erfc(long double x);
long double normal_cdf(long double x, long double mu, long double sigma);
long double normal_quantile(long double p, long double mu, long double sigma);
long double chi2_cdf(long double x, long double dof);
long double chi2_pdf(long double x, long double dof);
long double poisson_cdf(long double mean, unsigned k);
long double poisson_pmf(long double mean, unsigned k);
long double binomial_pmf(unsigned n, long double p, unsigned k);
long double binomial_cdf(unsigned n, long double p, unsigned k);
// Dawson integral F(x)=exp(-x^2) int_0^x exp(t^2) dt (own implementation: series / continued fraction in long double)
long double dawson(long double x);
// spherical harmonics with Condon-Shortley phase from an own long double Legendre recurrence; also d/dtheta
std::complex<long double> Ylm(int l, int m, long double theta, long double phi);
std::complex<long double> dYlm_dtheta(int l, int m, long double theta, long double phi);
// composite Gauss-Legendre (20 points per panel) integral of f over [a,b] in long double with `panels` panels
long double integrate(long double (*f)(long double, void*), void* ctx, long double a, long double b, int panels);
}	// namespace ref
}	// namespace vf
