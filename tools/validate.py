#!/usr/bin/env python3
import json, jsonschema, glob, sys
m=json.load(open('/verif/MANIFEST.json')); jsonschema.validate(m,json.load(open('/root/.vp/MANIFEST.schema.json'))); print('manifest valid: %d checks' % len(m['checks']))
s=json.load(open('/root/.vp/EVIDENCE.schema.json'))
for p in sorted(glob.glob('/verif/evidence/*.json')):
    e=json.load(open(p)); jsonschema.validate(e,s); print(p, 'valid', e['tier'], e['coverage']['evaluations'], e['coverage']['distinct_nontrivial'], 'violations', e.get('violations'))
