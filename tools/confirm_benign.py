#!/usr/bin/env python3
"""Confirm a BENIGN (property-preserving) change produced by a sub-agent and file it under /verif/benign/<name>/.

usage: confirm_benign.py <PROP> <bK> [--src /tmp/mut/<PROP>]
In a scratch worktree of /repo HEAD (under /tmp): apply the diff, build, run the pinned suite (must be 191/191),
build+run the demo (must PASS), revert, rebuild, demo (must PASS).  Only then copy patch.diff, demo.cpp, notes.md and
meta.json to /verif/seeded/<PROP>_<mK>/.  The worktree and its build output are removed at the end.
"""
import json, os, shutil, subprocess, sys, time

def sh(cmd, **kw):
    return subprocess.run(cmd, shell=True, stdout=subprocess.PIPE, stderr=subprocess.STDOUT, text=True, **kw)

def main():
    prop, mk = sys.argv[1], sys.argv[2]
    src = '/tmp/mut/%s' % prop
    if '--src' in sys.argv:
        src = sys.argv[sys.argv.index('--src') + 1]
    diff = os.path.join(src, mk + '.diff'); demo = os.path.join(src, mk + '_demo.cpp'); notes = os.path.join(src, mk + '_notes.md')
    for f in (diff, demo):
        if not os.path.exists(f):
            print('missing', f); return 2
    wt = '/tmp/confirmb_%s_%s_%d' % (prop, mk, os.getpid())
    head = sh('git -C /repo rev-parse HEAD').stdout.strip()
    r = sh('git -C /repo worktree add -q --detach %s HEAD' % wt)
    if r.returncode: print(r.stdout); return 2
    ok = False; log = {}
    try:
        bld = 'cmake -G Ninja -S %s -B %s/_build -DFETCHCONTENT_SOURCE_DIR_GOOGLETEST=/usr/src/googletest >/dev/null 2>&1 && cmake --build %s/_build -j16 2>&1 | tail -3' % (wt, wt, wt)
        democmd = 'g++ -std=c++14 -O1 -I%s/include -I%s/_build/generated %s %s/_build/src/libphysica.a -lconfig++ -o %s/demo_bin 2>&1 | tail -5' % (wt, wt, demo, wt, wt)
        first = open(demo).readline()
        if first.startswith('// BUILD:'):
            democmd = 'cd %s && %s 2>&1 | tail -5' % (wt, first[len('// BUILD:'):].strip().replace('$WT', wt).replace('mK_demo.cpp', demo).replace(os.path.basename(demo), demo).replace('-o demo', '-o %s/demo_bin' % wt))
        r = sh('git -C %s apply %s' % (wt, diff))
        if r.returncode: print('patch does not apply:', r.stdout); return 1
        files = sh('git -C %s diff --name-only' % wt).stdout.split()
        if any(not (f.startswith('src/') or f.startswith('include/')) for f in files):
            print('patch touches non-library files', files); return 1
        r = sh(bld)
        if not os.path.exists(wt + '/_build/src/libphysica.a'): print('build failed', r.stdout); return 1
        r = sh('python3 /verif/tools/baseline_check.py --repo %s' % wt); log['suite_with_change'] = r.stdout.strip().splitlines()[-1] if r.stdout.strip() else ''
        if r.returncode: print('suite fails with change:', r.stdout[-500:]); return 1
        r = sh(democmd)
        if not os.path.exists(wt + '/demo_bin'): print('demo does not compile', r.stdout); return 1
        t0 = time.time(); r = sh('cd %s && timeout 120 ./demo_bin' % wt); log['demo_with_change'] = {'exit': r.returncode, 'tail': r.stdout[-400:], 's': round(time.time() - t0, 1)}
        if r.returncode != 0: print('demo FAILS with the benign change:', r.stdout[-400:]); return 1
        sh('git -C %s checkout -- .' % wt)
        sh('cmake --build %s/_build -j16' % wt)
        os.remove(wt + '/demo_bin'); sh(democmd)
        r = sh('cd %s && timeout 120 ./demo_bin' % wt); log['demo_without_change'] = {'exit': r.returncode, 'tail': r.stdout[-300:]}
        if r.returncode != 0: print('demo FAILS without the change:', r.stdout[-500:]); return 1
        ok = True
    finally:
        sh('git -C /repo worktree remove --force %s' % wt); shutil.rmtree(wt, ignore_errors=True)
    if ok:
        dst = '/verif/benign/%s_%s' % (prop, mk)
        os.makedirs(dst, exist_ok=True)
        shutil.copy(diff, dst + '/patch.diff'); shutil.copy(demo, dst + '/demo.cpp')
        if os.path.exists(notes): shutil.copy(notes, dst + '/notes.md')
        meta = {'property': prop, 'name': '%s_%s' % (prop, mk), 'base_commit': head, 'files': files,
                'needs_to_manifest': open(notes).read()[:1500] if os.path.exists(notes) else '',
                'confirmed': log, 'kind': 'benign (property-preserving) change', 'confirmed_by': 'tools/confirm_benign.py (scratch worktree of /repo HEAD: apply, build, 191/191 suite, demo PASS; revert, demo PASS)',
                'alarms': None}
        json.dump(meta, open(dst + '/meta.json', 'w'), indent=1)
        print('CONFIRMED', dst)
        return 0
    return 1

if __name__ == '__main__':
    sys.exit(main())
