#!/usr/bin/env python3
"""Run the pinned libphysica unit-test suite (guard OFF) and compare with /root/.vp/BASELINE.json.

usage: baseline_check.py [--repo DIR] [--build DIR]
Builds DIR/_build with cmake (offline; the tree is already configured), runs the 8 gtest binaries with XML
output and ctest, and checks that every test in BASELINE.stable_pass passed.  Exit 0 iff all 191 passed.
"""
import json, os, subprocess, sys, tempfile, xml.etree.ElementTree as ET

def main():
    repo = '/repo'
    args = sys.argv[1:]
    if '--repo' in args:
        repo = args[args.index('--repo') + 1]
    build = os.path.join(repo, '_build')
    if '--build' in args:
        build = args[args.index('--build') + 1]
    base = json.load(open('/root/.vp/BASELINE.json'))
    want = set(base['stable_pass'])
    if not os.path.exists(os.path.join(build, 'build.ninja')) and not os.path.exists(os.path.join(build, 'Makefile')):
        r = subprocess.run(['cmake', '-G', 'Ninja', '-S', repo, '-B', build, '-DFETCHCONTENT_FULLY_DISCONNECTED=ON'], stdout=subprocess.PIPE, stderr=subprocess.STDOUT, text=True)
        if r.returncode != 0:
            print(r.stdout[-3000:]); print('BASELINE: configure failed'); return 2
    r = subprocess.run(['cmake', '--build', build, '-j', '16'], stdout=subprocess.PIPE, stderr=subprocess.STDOUT, text=True)
    if r.returncode != 0:
        print(r.stdout[-3000:]); print('BASELINE: build failed'); return 2
    passed = set()
    failed = set()
    tdir = os.path.join(build, 'tests')
    with tempfile.TemporaryDirectory() as tmp:
        for b in sorted(os.listdir(tdir)):
            p = os.path.join(tdir, b)
            if not (b.startswith('test_') and os.access(p, os.X_OK) and os.path.isfile(p)):
                continue
            xml = os.path.join(tmp, b + '.xml')
            rr = subprocess.run([p, '--gtest_output=xml:' + xml], cwd=os.path.join(repo, 'tests'), stdout=subprocess.DEVNULL, stderr=subprocess.DEVNULL, timeout=900)
            (passed if rr.returncode == 0 else failed).add(b + '::' + b)
            if os.path.exists(xml):
                for tc in ET.parse(xml).getroot().iter('testcase'):
                    name = tc.get('classname') + '::' + tc.get('name')
                    bad = any(ch.tag in ('failure', 'error') for ch in tc)
                    (failed if bad else passed).add(name)
    missing = sorted(want - passed)
    print('BASELINE: %d/%d stable tests passed; failed overall: %s' % (len(want & passed), len(want), sorted(failed)))
    if missing:
        print('BASELINE: NOT PASSING:', missing)
        return 1
    return 0

if __name__ == '__main__':
    sys.exit(main())
