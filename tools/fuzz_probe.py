#!/usr/bin/env python3
"""Calibrate the libFuzzer campaigns: build the coverage-guided variant of each property binary and run one worker for a few
seconds per clause seed; prints executions/s, pass / non-trivial / discard counts and any failure.  Usage: fuzz_probe.py [secs] [PROPS…]"""
import glob, json, os, shutil, subprocess, sys, tempfile, re
V = os.path.dirname(os.path.dirname(os.path.abspath(__file__)))
sys.path.insert(0, V)
import vrun

def main():
    args = sys.argv[1:]
    secs = int(args.pop(0)) if args and args[0].isdigit() else 20
    pids = args or vrun.all_props()
    b = vrun.Builder('/repo')
    bins = b.build(pids)
    if 'C20' in pids:
        vrun.EXTRA_ENV['VERIF_UNITS_DIR'] = vrun.build_units_probes(b)
    for pid in pids:
        fz = vrun.build_fuzz(b, pid)
        binary = bins[pid] if isinstance(bins, dict) else os.path.join(vrun.BUILD, 'bin', pid)
        ncl = len([l for l in vrun.run([binary, '--list']).stdout.splitlines() if l.strip()])
        wd = tempfile.mkdtemp(prefix='fzprobe_', dir='/var/tmp')
        try:
            corpus = os.path.join(wd, 'corpus'); art = os.path.join(wd, 'art')
            os.makedirs(corpus); os.makedirs(art)
            for i in range(ncl):
                open(os.path.join(corpus, 'z%d' % i), 'wb').write(bytes([i]) + bytes(64))
            env = vrun.san_env(wd); env['VF_FUZZ_OUT'] = wd
            r = subprocess.run([fz, corpus, '-max_total_time=%d' % secs, '-seed=7', '-max_len=8192', '-len_control=0', '-artifact_prefix=' + art + '/',
                                '-print_final_stats=1', '-timeout=120', '-detect_leaks=0'], env=env, stdout=subprocess.PIPE, stderr=subprocess.STDOUT, text=True, errors='replace')
            st = {'execs': 0, 'pass': 0, 'nontrivial': 0, 'discard': 0}
            for sp in glob.glob(os.path.join(wd, 'fuzzstats.*.json')):
                d = json.load(open(sp))
                for k in st:
                    st[k] += d[k]
            m = re.search(r'stat::average_exec_per_sec:\s+(\d+)', r.stdout)
            cov = re.findall(r'cov: (\d+)', r.stdout)
            fails = glob.glob(os.path.join(wd, 'fuzzfail.*')) + [a for a in glob.glob(os.path.join(art, '*')) if os.path.basename(a).startswith(('crash-', 'leak-'))]
            print('%s rc=%d exec/s=%s cov=%s %s fails=%s' % (pid, r.returncode, m.group(1) if m else '?', cov[-1] if cov else '?', st, [os.path.basename(f) for f in fails]), flush=True)
            if fails or r.returncode:
                print(r.stdout[-1500:])
                keep = os.path.join('/var/tmp', 'fzprobe_keep_' + pid)
                shutil.rmtree(keep, ignore_errors=True); shutil.copytree(wd, keep)
        finally:
            shutil.rmtree(wd, ignore_errors=True)

if __name__ == '__main__':
    main()
