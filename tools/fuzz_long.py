#!/usr/bin/env python3
"""Background libFuzzer campaigns outside the registered checks: fuzz_long.py <scale> <workers> [PROPS…]; failing cases are kept under /var/tmp/fuzz_long/<prop>/."""
import glob, json, os, shutil, sys, tempfile, time
V = os.path.dirname(os.path.dirname(os.path.abspath(__file__)))
sys.path.insert(0, V)
import vrun

def main():
    scale = float(sys.argv[1]); workers = int(sys.argv[2]); pids = sys.argv[3:] or vrun.all_props()
    b = vrun.Builder('/repo')
    bins = b.build(pids)
    if 'C20' in pids:
        vrun.EXTRA_ENV['VERIF_UNITS_DIR'] = vrun.build_units_probes(b)
    for pid in pids:
        rundir = tempfile.mkdtemp(prefix='fzlong_%s_' % pid, dir='/var/tmp')
        t0 = time.time()
        try:
            stats, fails = vrun.fuzz_campaign(b, pid, bins[pid], rundir, int(os.environ.get('VERIF_SEED', '1')), scale, workers)
            keep = os.path.join('/var/tmp/fuzz_long', pid)
            print('%s %.0fs execs=%d pass=%d nontrivial=%d cov=%d fails=%d' % (pid, time.time() - t0, stats['execs'], stats['pass'], stats['nontrivial'], stats['coverage_edges'], len(fails)), flush=True)
            for fi, (cf, kind, msg) in enumerate(fails):
                os.makedirs(keep, exist_ok=True)
                dst = os.path.join(keep, '%s_%d_%d.case' % (kind, int(time.time()) % 100000000, fi))
                shutil.copy(cf, dst)
                print('  FAIL %s %s :: %s' % (kind, dst, msg[-300:].replace('\n', ' | ')), flush=True)
        finally:
            shutil.rmtree(rundir, ignore_errors=True)

if __name__ == '__main__':
    main()
