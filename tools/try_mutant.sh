#!/bin/bash
# usage: try_mutant.sh <seeded-name e.g. C04_m1> [PROP ...] [-- extra vrun args]
# Applies /verif/seeded/<name>/patch.diff to /repo, runs the quick check of each PROP (default: the property in the
# name), and always restores /repo afterwards.  Prints DETECTED/MISSED per property.
name=$1; shift
props=()
while [ $# -gt 0 ] && [ "$1" != "--" ]; do props+=("$1"); shift; done
[ "$1" == "--" ] && shift
[ ${#props[@]} -eq 0 ] && props=("${name%%_*}")
tier=${TIER:-quick}
cd /verif
if ! git -C /repo diff --quiet; then echo "/repo has local changes; refusing"; exit 2; fi
git -C /repo apply /verif/seeded/$name/patch.diff || { echo "patch failed"; exit 2; }
mkdir -p /verif/build/evbak; cp -a /verif/evidence/. /verif/build/evbak/ 2>/dev/null
trap 'git -C /repo checkout -- . ; cp -a /verif/build/evbak/. /verif/evidence/ 2>/dev/null' EXIT
for p in "${props[@]}"; do
  out=$(python3 vrun.py $p $tier "$@" 2>&1); rc=$?
  if echo "$out" | grep -q '^VIOLATION'; then echo "DETECTED $name by $p ($tier) rc=$rc"; echo "$out" | grep -A1 '^VIOLATION' | cut -c1-400 | head -6
  else echo "MISSED $name by $p ($tier) rc=$rc"; echo "$out" | tail -5 | cut -c1-300; fi
done
