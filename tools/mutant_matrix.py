#!/usr/bin/env python3
"""Run the quick (or thorough) check of the owning property against every seeded change, in a scratch worktree of /repo.

usage: mutant_matrix.py [--tier quick] [--only C04_m1,C05_m2] [--extra]   (writes /verif/seeded/RESULTS.json and meta.json 'detected_by')
Never touches /repo's working tree: a detached worktree under /tmp is created, each patch is applied there and reverted.
With --extra every change is additionally run against the related properties listed in its meta.json 'also_try'.
"""
import glob, json, os, subprocess, sys, time

V = '/verif'
def sh(cmd):
    return subprocess.run(cmd, shell=True, stdout=subprocess.PIPE, stderr=subprocess.STDOUT, text=True)

def main():
    a = sys.argv[1:]
    tier = a[a.index('--tier') + 1] if '--tier' in a else 'quick'
    only = a[a.index('--only') + 1].split(',') if '--only' in a else None
    wt = '/tmp/wt_matrix_%d' % os.getpid()
    r = sh('git -C /repo worktree add -q --detach %s HEAD' % wt)
    if r.returncode:
        print(r.stdout); return 2
    results = {}
    resfile = os.path.join(V, 'seeded', 'RESULTS.json')
    if os.path.exists(resfile):
        results = json.load(open(resfile))
    try:
        for d in sorted(glob.glob(os.path.join(V, 'seeded', 'C??_m*'))):
            name = os.path.basename(d)
            if only and name not in only:
                continue
            meta = json.load(open(os.path.join(d, 'meta.json')))
            props = [meta['property']] + (meta.get('also_try', []) if '--extra' in a else [])
            ap = sh('git -C %s apply %s/patch.diff' % (wt, d))
            if ap.returncode:
                results[name] = {'status': 'patch does not apply to current HEAD', 'detail': ap.stdout[-300:]}
                print(name, 'PATCH-FAILS'); continue
            det = {}
            for p in props:
                t0 = time.time()
                rr = sh('cd %s && python3 vrun.py %s %s --repo %s' % (V, p, tier, wt))
                viol = [l for l in rr.stdout.splitlines() if l.startswith('VIOLATION')]
                first = ''
                if viol:
                    idx = rr.stdout.splitlines().index(viol[0])
                    first = ' '.join(rr.stdout.splitlines()[idx + 1:idx + 2])[:300]
                # keep the shrunk reproducers as regression cases of the owning property's check
                for vl in viol:
                    rp = vl.split('replay=')[-1].strip()
                    if rp.endswith('.case') and os.path.exists(rp):
                        cl = os.path.basename(rp).rsplit('-', 1)[0]
                        if cl in ('crash', 'fuzz') or cl.startswith('regress'):
                            continue
                        dst = os.path.join(V, 'regress', p, '%s-%s.case' % (name, cl))
                        os.makedirs(os.path.dirname(dst), exist_ok=True)
                        import shutil
                        shutil.copy(rp, dst)
                det[p] = {'detected': bool(viol), 'exit': rr.returncode, 'violations': len(viol), 'first': first, 'wall_s': round(time.time() - t0, 1)}
                print(name, p, 'DETECTED' if viol else 'MISSED', '%.0fs' % (time.time() - t0), flush=True)
            sh('git -C %s checkout -- .' % wt)
            results[name] = {'status': 'ran', 'tier': tier, 'base': sh('git -C /repo rev-parse --short HEAD').stdout.strip(), 'checks': det}
            meta['detected_by'] = sorted(p for p, v in det.items() if v['detected'])
            json.dump(meta, open(os.path.join(d, 'meta.json'), 'w'), indent=1)
            json.dump(results, open(resfile, 'w'), indent=1, sort_keys=True)
    finally:
        sh('git -C /repo worktree remove --force %s' % wt)
        sh('rm -rf %s' % wt)
    missed = [n for n, v in results.items() if v.get('status') == 'ran' and not any(c['detected'] for c in v['checks'].values())]
    print('seeded changes: %d, missed by every check tried: %s' % (len(results), missed))
    return 0

if __name__ == '__main__':
    sys.exit(main())
