#!/usr/bin/env python3
"""Regenerate /verif/MANIFEST.json from the property files present in props/ and tools/manifest_texts.json."""
import glob, json, os, subprocess
V = os.path.dirname(os.path.dirname(os.path.abspath(__file__)))
texts = json.load(open(os.path.join(V, 'tools', 'manifest_texts.json')))
props = [json.loads(l) for l in open(os.path.join(V, 'properties.jsonl'))]
have = sorted(os.path.basename(p)[:-4] for p in glob.glob(os.path.join(V, 'props', 'C??.cpp')))
hooks_commits = subprocess.run(['git', '-C', '/repo', 'log', '--format=%H %s'], stdout=subprocess.PIPE, text=True).stdout.splitlines()
hook_shas = [l.split()[0] for l in hooks_commits if 'verif hook' in l]
checks = []
na = []
for p in props:
    pid = p['id']
    t = texts.get(pid, {})
    if pid in have and not t.get('not_applicable'):
        checks.append({
            'property_id': pid,
            'quick_cmd': 'python3 vrun.py %s quick' % pid,
            'thorough_cmd': 'python3 vrun.py %s thorough' % pid,
            'evidence_file': 'evidence/%s.json' % pid,
            'replay_cmd_template': 'python3 vrun.py --replay {path}',
            'engine': 'choice-sequence PBT (rapidcheck) and libFuzzer (thorough tier) under ASan+UBSan',
            'level_claimed': {'category': 'exploration', 'text': t.get('level', ''), 'design_ref': t.get('design_ref', 'DESIGN.md section 3 ' + pid)},
            'level_note': t.get('note', texts['_default_note']),
            'technique': t.get('technique', 'property-based testing and fuzzing: rapidcheck-generated (quick, thorough) and libFuzzer-mutated (thorough) choice sequences decoded into inputs, explicit oracle, fork-isolated shrinking, saved reproducers replayed first'),
        })
    else:
        na.append({'property_id': pid, 'reason': t.get('not_applicable', 'check not built yet (work in progress this round); no claim is made for this property')})
m = {
    'version': 1,
    'setup_cmd': 'python3 vrun.py --setup',
    'hooks': {
        'guard': 'LIBPHYSICA_VERIF',
        'enable': 'vrun.py compiles /repo/src/*.cpp itself with -DLIBPHYSICA_VERIF (g++ -O1 -fsanitize=address,undefined); /repo/_build is never used by the checks',
        'baseline_off_cmd': 'python3 /verif/tools/baseline_check.py',
        'source_commits': hook_shas,
        'add_only': True,
    },
    'engines': [
        {'name': 'choice-sequence PBT', 'path': 'engine/', 'serves_properties': [c['property_id'] for c in checks],
         'kind_free_text': 'each property file (props/Cxx.cpp) decodes a flat sequence of 64-bit choices into inputs / call histories and checks an explicit oracle; engine/driver.cpp drives it with rapidcheck (seeded from VERIF_SEED), traps std::exit, captures diagnostics, isolates crashes and hangs in forked children and shrinks failing sequences by delta debugging; vrun.py rebuilds the library from /repo with sanitizers, runs shards in parallel, replays failures three times and writes the evidence'},
    ],
    'checks': checks,
    'not_applicable': na,
    'notes': texts.get('_notes', ''),
}
json.dump(m, open(os.path.join(V, 'MANIFEST.json'), 'w'), indent=1)
print('MANIFEST: %d checks, %d not claimed' % (len(checks), len(na)))
