#!/usr/bin/env python3
"""Run the quick check of the owning property against every BENIGN change in /verif/benign: none may raise an alarm.

usage: mutant_matrix.py [--tier quick] [--only C04_m1,C05_m2] [--extra]   (writes /verif/seeded/RESULTS.json and meta.json 'detected_by')
Never touches /repo's working tree: a detached worktree under /tmp is created, each patch is applied there and reverted.
With --extra every change is additionally run against the related properties listed in its meta.json 'also_try'.
"""
import glob, json, os, subprocess, sys, time

V = '/verif'
def sh(cmd):
    return subprocess.run(cmd, shell=True, stdout=subprocess.PIPE, stderr=subprocess.STDOUT, text=True)

def main():
    a = sys.argv[1:]
    tier = a[a.index('--tier') + 1] if '--tier' in a else 'quick'
    only = a[a.index('--only') + 1].split(',') if '--only' in a else None
    wt = '/tmp/wt_bmatrix_%d' % os.getpid()
    r = sh('git -C /repo worktree add -q --detach %s HEAD' % wt)
    if r.returncode:
        print(r.stdout); return 2
    results = {}
    resfile = os.path.join(V, 'benign', 'RESULTS.json')
    if os.path.exists(resfile):
        results = json.load(open(resfile))
    try:
        for d in sorted(glob.glob(os.path.join(V, 'benign', 'C??_b*'))):
            name = os.path.basename(d)
            if only and name not in only:
                continue
            meta = json.load(open(os.path.join(d, 'meta.json')))
            props = [meta['property']] + (meta.get('also_try', []) if '--extra' in a else [])
            ap = sh('git -C %s apply %s/patch.diff' % (wt, d))
            if ap.returncode:
                results[name] = {'status': 'patch does not apply to current HEAD', 'detail': ap.stdout[-300:]}
                print(name, 'PATCH-FAILS'); continue
            det = {}
            for p in props:
                t0 = time.time()
                rr = sh('cd %s && python3 vrun.py %s %s --repo %s' % (V, p, tier, wt))
                viol = [l for l in rr.stdout.splitlines() if l.startswith('VIOLATION')]
                first = ''
                if viol:
                    idx = rr.stdout.splitlines().index(viol[0])
                    first = ' '.join(rr.stdout.splitlines()[idx + 1:idx + 2])[:300]
                det[p] = {'detected': bool(viol), 'exit': rr.returncode, 'violations': len(viol), 'first': first, 'wall_s': round(time.time() - t0, 1)}
                print(name, p, 'FALSE-ALARM' if viol else 'quiet', 'exit=%d' % rr.returncode, '%.0fs' % (time.time() - t0), flush=True)
                if viol:
                    print('   ', viol[0], '|', first, flush=True)
            sh('git -C %s checkout -- .' % wt)
            results[name] = {'status': 'ran', 'tier': tier, 'base': sh('git -C /repo rev-parse --short HEAD').stdout.strip(), 'checks': det}
            meta['alarms'] = sorted(p for p, v in det.items() if v['detected'] or v['exit'] != 0)
            json.dump(meta, open(os.path.join(d, 'meta.json'), 'w'), indent=1)
            json.dump(results, open(resfile, 'w'), indent=1, sort_keys=True)
    finally:
        sh('git -C /repo worktree remove --force %s' % wt)
        sh('rm -rf %s' % wt)
    alarms = [n for n, v in results.items() if v.get('status') == 'ran' and any(c['detected'] or c['exit'] != 0 for c in v['checks'].values())]
    print('benign changes: %d, alarms: %s' % (len(results), alarms))
    return 0

if __name__ == '__main__':
    sys.exit(main())
