#!/usr/bin/env python3
"""Driver of the libphysica property checks (stdlib only).

  vrun.py --setup                      build library objects, engine and all property binaries (offline)
  vrun.py <PROP> quick|thorough        run the check of one property; writes evidence/<PROP>.json
  vrun.py --replay <file>              re-run one saved case (exit 1 if it still violates the property)
options: --repo DIR (default /repo)  --seed N (default $VERIF_SEED or 1)  --scale X (default $VERIF_SCALE or 1)
         --clauses a,b  --jobs N  --keep
Everything is rebuilt from the working tree of --repo whenever a source or header changed (content hashes).
Exit status of a check: 0 = property held on everything explored (known findings are reported on stdout),
1 = violation (a line `VIOLATION property=<id> replay=<path>` is printed), 2 = the machinery itself failed.
"""
import glob, hashlib, json, os, shutil, struct, subprocess, sys, time
from concurrent.futures import ThreadPoolExecutor

VERIF = os.path.dirname(os.path.abspath(__file__))
BUILD = os.path.join(VERIF, 'build')
GUARD = 'LIBPHYSICA_VERIF'
CXX = 'g++'
CXXFLAGS = ['-std=c++14', '-O1', '-g', '-fno-omit-frame-pointer', '-fsanitize=address,undefined',
            '-fno-sanitize-recover=undefined', '-D' + GUARD, '-w']
LDFLAGS = ['-fsanitize=address,undefined', '-Wl,--wrap=exit', '-lrapidcheck', '-lconfig++']
ENGINE_HEADERS = ['engine/choice.hpp', 'engine/harness.hpp', 'engine/lacommon.hpp', 'engine/refmath.hpp', 'engine/interp_common.hpp']
NCPU = os.cpu_count() or 4

VERSION_HPP = '''#ifndef VERSION_HPP
#define VERSION_HPP
#define AUTHOR "Timon Emken"
#define YEAR "2020"
#define PROJECT_NAME "libphysica"
#define PROJECT_VERSION "0.1.5"
#define PROJECT_DIR "%(repo)s/"
#define PROJECT_VERSION_MAJOR "0"
#define PROJECT_VERSION_MINOR "1"
#define PROJECT_VERSION_PATCH "5"
#define GIT_BRANCH "verif"
#define GIT_COMMIT_HASH "worktree"
#define TOP_LEVEL_PROJECT_NAME "libphysica"
#define TOP_LEVEL_PROJECT_VERSION "0.1.5"
#define TOP_LEVEL_DIR "%(repo)s/"
#define TOP_LEVEL_PROJECT_VERSION_MAJOR "0"
#define TOP_LEVEL_PROJECT_VERSION_MINOR "1"
#define TOP_LEVEL_PROJECT_VERSION_PATCH "5"
#define TOP_LEVEL_GIT_BRANCH "verif"
#define TOP_LEVEL_GIT_COMMIT_HASH "worktree"
#endif
'''

def log(*a):
    print(*a, flush=True)

def sha(*parts):
    h = hashlib.sha256()
    for p in parts:
        h.update(p if isinstance(p, bytes) else p.encode())
        h.update(b'\0')
    return h.hexdigest()[:20]

def read(p):
    with open(p, 'rb') as f:
        return f.read()

def run(cmd, **kw):
    return subprocess.run(cmd, stdout=subprocess.PIPE, stderr=subprocess.STDOUT, text=True, **kw)

# ------------------------------------------------------------------------------------------------------------------
# build
class Builder:
    def __init__(self, repo):
        self.repo = os.path.abspath(repo)
        hdrs = sorted(glob.glob(os.path.join(self.repo, 'include', '**', '*'), recursive=True))
        self.hdr_hash = sha(*[read(h) for h in hdrs if os.path.isfile(h)])
        self.gen = os.path.join(BUILD, 'gen', sha(self.repo))
        os.makedirs(self.gen, exist_ok=True)
        vh = os.path.join(self.gen, 'version.hpp')
        txt = VERSION_HPP % {'repo': self.repo}
        if not os.path.exists(vh) or open(vh).read() != txt:
            open(vh, 'w').write(txt)
        self.inc = ['-I' + os.path.join(self.repo, 'include'), '-I' + self.gen]
        self.eng_hash = sha(*[read(os.path.join(VERIF, h)) for h in ENGINE_HEADERS if os.path.exists(os.path.join(VERIF, h))])

    def compile(self, src, key, extra=(), cxx=None, flags=None):
        obj = os.path.join(BUILD, 'obj', key + '.o')
        if os.path.exists(obj):
            return obj, None
        os.makedirs(os.path.dirname(obj), exist_ok=True)
        tmp = obj + '.%d.tmp' % os.getpid()
        cmd = [cxx or CXX] + (flags if flags is not None else CXXFLAGS) + list(extra) + self.inc + ['-c', src, '-o', tmp]
        r = run(cmd)
        if r.returncode != 0:
            return None, r.stdout
        os.replace(tmp, obj)
        return obj, None

    def lib_jobs(self):
        jobs = []
        for src in sorted(glob.glob(os.path.join(self.repo, 'src', '*.cpp'))):
            if os.path.basename(src) == 'main.cpp':
                continue
            key = 'lib-' + os.path.basename(src)[:-4] + '-' + sha(' '.join(CXXFLAGS), read(src), self.hdr_hash)
            jobs.append((src, key, ()))
        return jobs

    def engine_job(self):
        src = os.path.join(VERIF, 'engine', 'driver.cpp')
        return (src, 'engine-driver-' + sha(' '.join(CXXFLAGS), read(src), self.eng_hash), ())

    def refmath_job(self):
        src = os.path.join(VERIF, 'engine', 'refmath.cpp')
        return (src, 'engine-refmath-' + sha(' '.join(CXXFLAGS), read(src), read(os.path.join(VERIF, 'engine', 'refmath.hpp'))), ('-O2',))

    def prop_job(self, pid):
        src = os.path.join(VERIF, 'props', pid + '.cpp')
        return (src, 'prop-' + pid + '-' + sha(' '.join(CXXFLAGS), read(src), self.eng_hash, self.hdr_hash), ())

    def build(self, pids, jobs=NCPU):
        """returns {pid: binary path}; raises on compile errors"""
        todo = self.lib_jobs() + [self.engine_job(), self.refmath_job()] + [self.prop_job(p) for p in pids]
        t0 = time.time()
        with ThreadPoolExecutor(max_workers=jobs) as ex:
            res = list(ex.map(lambda j: self.compile(*j), todo))
        for (src, key, _), (obj, err) in zip(todo, res):
            if obj is None:
                raise RuntimeError('compile failed: %s\n%s' % (src, err[-4000:]))
        nlib = len(self.lib_jobs())
        libobjs = [o for o, _ in res[:nlib]]
        engobj = res[nlib][0]
        refobj = res[nlib + 1][0]
        bins = {}
        def link(i_pid):
            i, pid = i_pid
            pobj = res[nlib + 2 + i][0]
            key = sha(*([pobj, engobj, refobj] + libobjs))
            out = os.path.join(BUILD, 'bin', pid + '-' + key)
            if not os.path.exists(out):
                os.makedirs(os.path.dirname(out), exist_ok=True)
                tmp = out + '.%d.tmp' % os.getpid()
                r = run([CXX, pobj, engobj, refobj] + libobjs + LDFLAGS + ['-o', tmp])
                if r.returncode != 0:
                    raise RuntimeError('link failed for %s\n%s' % (pid, r.stdout[-4000:]))
                os.replace(tmp, out)
            return pid, out
        with ThreadPoolExecutor(max_workers=jobs) as ex:
            for pid, out in ex.map(link, list(enumerate(pids))):
                bins[pid] = out
        self.build_s = time.time() - t0
        return bins

# (compiler, flags, label); the fifth configuration carries the flags of the property binaries themselves (sanitizers on), so that every constant -
# not only the handful the harness reads in-process - is also observed under them
UNIT_CFGS = [('g++', ['-O0'], 'g++_O0'), ('g++', ['-O2'], 'g++_O2'), ('clang++', ['-O0'], 'clang++_O0'), ('clang++', ['-O2'], 'clang++_O2'),
             ('g++', ['-O1', '-fsanitize=address,undefined', '-fno-sanitize-recover=undefined'], 'g++_O1_sanitizers')]

def build_units_probes(b):
    """C20 'every build': compile src/Natural_Units.cpp with each compiler/optimisation level together with a generated probe that
    prints every constant declared in Natural_Units.hpp as a hex float; returns the directory holding <cfg>.txt (cached by content)."""
    import re
    hdr = os.path.join(b.repo, 'include', 'libphysica', 'Natural_Units.hpp')
    src = os.path.join(b.repo, 'src', 'Natural_Units.cpp')
    names = []
    for decl in re.findall(r'extern\s+const\s+double\s+([^;]+);', open(hdr).read()):
        names += [n.strip() for n in decl.split(',') if n.strip()]
    key = sha(read(src), b.hdr_hash, repr(UNIT_CFGS), 'v4')
    outdir = os.path.join(BUILD, 'units', key)
    if all(os.path.exists(os.path.join(outdir, '%s.txt' % label)) for cxx, opt, label in UNIT_CFGS):
        return outdir
    os.makedirs(outdir, exist_ok=True)
    probe = os.path.join(outdir, 'probe.cpp')
    with open(probe, 'w') as f:
        f.write('#include <cstdio>\n#include "libphysica/Natural_Units.hpp"\nusing namespace libphysica::natural_units;\nint main(){\n')
        for n in names:
            f.write('  std::printf("%s %%a\\n", %s);\n' % (n, n))
        f.write('  return 0;\n}\n')
    def one(cfg):
        cxx, opt, label = cfg
        exe = os.path.join(outdir, 'probe_%s' % label)
        # only the constants are referenced: unused functions (In_Units, ...) are dropped at link time, so the rest of the library is not needed
        cmd = [cxx, '-std=c++14'] + opt + ['-w', '-ffunction-sections', '-fdata-sections'] + b.inc + [src, probe, '-Wl,--gc-sections', '-o', exe]
        r = run(cmd)
        if r.returncode != 0:
            r = run(cmd + ['-Wl,--unresolved-symbols=ignore-all'])
        if r.returncode != 0:
            raise RuntimeError('unit probe build failed for %s %s\n%s' % (cxx, opt, r.stdout[-3000:]))
        rr = subprocess.run([exe], stdout=subprocess.PIPE, stderr=subprocess.PIPE, text=True, env=dict(os.environ, ASAN_OPTIONS='detect_leaks=0'))
        if rr.returncode != 0:
            raise RuntimeError('unit probe crashed for %s %s\n%s' % (cxx, opt, rr.stderr[-2000:]))
        tmp = os.path.join(outdir, '%s.txt.tmp' % label)
        open(tmp, 'w').write(rr.stdout)
        os.replace(tmp, os.path.join(outdir, '%s.txt' % label))
    with ThreadPoolExecutor(max_workers=5) as ex:
        list(ex.map(one, UNIT_CFGS))
    return outdir

# per-property multipliers of the case counts registered in props/*.cpp, calibrated so that a quick check executes for roughly 15-30 s
# on 8 shards and a thorough one for roughly 6-12 min on 16 shards including its libFuzzer campaign (bounded by case count, never by a clock;
# measured after malloc_context_size=5 halved the run times)
TIER_SCALE = {
    'C01': (24, 30), 'C02': (40, 40), 'C03': (20, 30), 'C04': (10, 15), 'C05': (2, 2), 'C06': (8, 6), 'C07': (20, 40), 'C08': (40, 60),
    'C09': (4, 1.3), 'C10': (3, 5), 'C11': (12, 18), 'C12': (1.5, 2.6), 'C13': (1, 3), 'C14': (1, 1), 'C15': (0.7, 1), 'C16': (45, 60),
    'C17': (32, 35), 'C18': (1, 1), 'C19': (12, 30), 'C20': (25, 40),
}

FUZZ_CXX = 'clang++'
FUZZ_FLAGS = ['-std=c++14', '-O1', '-g', '-fno-omit-frame-pointer', '-fsanitize=fuzzer-no-link,address,undefined', '-fno-sanitize-recover=undefined',
              '-D' + GUARD, '-DVF_FUZZ', '-w']
# executions per worker (16 workers), calibrated with tools/fuzz_probe.py to roughly two minutes per campaign; every property has one
# (D22, D23 and D27 were found by these campaigns, not by the random generators)
FUZZ_RUNS = {'C01': 300000, 'C02': 2000000, 'C03': 100000, 'C04': 600000, 'C05': 40000, 'C06': 2000000, 'C07': 150000, 'C08': 250000, 'C09': 80000,
             'C10': 200000, 'C11': 100000, 'C12': 1500, 'C13': 20000, 'C14': 800, 'C15': 8000, 'C16': 1500000, 'C17': 2000000, 'C18': 3000,
             'C19': 80000, 'C20': 200000}

def build_fuzz(b, pid, jobs=NCPU):
    """coverage-guided variant of a property binary: clang++ -fsanitize=fuzzer,address,undefined, same decoders and oracles"""
    fl = ' '.join(FUZZ_FLAGS)
    todo = []
    for src in sorted(glob.glob(os.path.join(b.repo, 'src', '*.cpp'))):
        todo.append((src, 'fzlib-' + os.path.basename(src)[:-4] + '-' + sha(fl, read(src), b.hdr_hash)))
    eng = os.path.join(VERIF, 'engine', 'driver.cpp')
    todo.append((eng, 'fzengine-' + sha(fl, read(eng), b.eng_hash)))
    rm = os.path.join(VERIF, 'engine', 'refmath.cpp')
    todo.append((rm, 'fzrefmath-' + sha(fl, read(rm), read(os.path.join(VERIF, 'engine', 'refmath.hpp')))))
    ps = os.path.join(VERIF, 'props', pid + '.cpp')
    todo.append((ps, 'fzprop-' + pid + '-' + sha(fl, read(ps), b.eng_hash, b.hdr_hash)))
    with ThreadPoolExecutor(max_workers=jobs) as ex:
        res = list(ex.map(lambda j: b.compile(j[0], j[1], (), FUZZ_CXX, FUZZ_FLAGS), todo))
    for (src, key), (obj, err) in zip(todo, res):
        if obj is None:
            raise RuntimeError('fuzz compile failed: %s\n%s' % (src, err[-3000:]))
    objs = [o for o, _ in res]
    out = os.path.join(BUILD, 'bin', 'fz-' + pid + '-' + sha(*objs))
    if not os.path.exists(out):
        tmp = out + '.%d.tmp' % os.getpid()
        r = run([FUZZ_CXX] + objs + ['-fsanitize=fuzzer,address,undefined', '-Wl,--wrap=exit', '-lconfig++', '-o', tmp])
        if r.returncode != 0:
            raise RuntimeError('fuzz link failed for %s\n%s' % (pid, r.stdout[-3000:]))
        os.replace(tmp, out)
    return out

def fuzz_campaign(b, pid, binary, rundir, seed, scale, jobs):
    """16 libFuzzer workers on the shared decoders; returns (stats dict, list of failing case files)"""
    import random
    fz = build_fuzz(b, pid, jobs)
    nclauses = len([l for l in run([binary, '--list']).stdout.splitlines() if l.strip()])
    runs = max(1000, int(FUZZ_RUNS.get(pid, 50000) * scale))
    workers = min(jobs, 16)
    procs = []
    rnd = random.Random(seed)
    for k in range(workers):
        wd = os.path.join(rundir, 'fz%d' % k)
        corpus = os.path.join(wd, 'corpus'); art = os.path.join(wd, 'art')
        os.makedirs(corpus); os.makedirs(art)
        for i in range(nclauses):   # one small valid input per clause, one random one
            open(os.path.join(corpus, 'seed_zero_%d' % i), 'wb').write(bytes([i]) + bytes(64))
            open(os.path.join(corpus, 'seed_rand_%d' % i), 'wb').write(bytes([i]) + bytes(rnd.getrandbits(8) for _ in range(512)))
        env = san_env(wd)
        env['VF_FUZZ_OUT'] = wd
        cmd = [fz, corpus, '-runs=%d' % runs, '-seed=%d' % (seed * 1000 + k + 1), '-max_len=8192', '-len_control=0', '-artifact_prefix=' + art + '/',
               '-print_final_stats=1', '-timeout=120', '-rss_limit_mb=6000', '-detect_leaks=0']
        procs.append((k, wd, subprocess.Popen(cmd, env=env, stdout=open(os.path.join(wd, 'log.txt'), 'w'), stderr=subprocess.STDOUT)))
    stats = {'engine': 'libFuzzer (clang++ -fsanitize=fuzzer,address,undefined) on the same decoders and oracles', 'workers': workers, 'runs_per_worker': runs,
             'execs': 0, 'pass': 0, 'nontrivial': 0, 'discard': 0, 'coverage_edges': 0, 'corpus_units': 0}
    fails = []
    for k, wd, p in procs:
        rc = p.wait()
        for sp in glob.glob(os.path.join(wd, 'fuzzstats.*.json')):
            try:
                d = json.load(open(sp))
                for key in ('execs', 'pass', 'nontrivial', 'discard'):
                    stats[key] += d[key]
            except ValueError:
                pass
        logtxt = open(os.path.join(wd, 'log.txt'), errors='replace').read()
        import re
        cov = re.findall(r'cov: (\d+)', logtxt)
        if cov:
            stats['coverage_edges'] = max(stats['coverage_edges'], int(cov[-1]))
        stats['corpus_units'] += len(os.listdir(os.path.join(wd, 'corpus')))
        cases = glob.glob(os.path.join(wd, 'fuzzfail.*.case'))
        arts = [a for a in glob.glob(os.path.join(wd, 'art', '*')) if os.path.basename(a).startswith(('crash-', 'leak-'))]
        if cases:
            fails.append((cases[0], 'fail', 'libFuzzer worker %d: %s' % (k, logtxt[-400:])))
        elif arts:   # sanitizer crash inside the library: convert the raw input
            cf = os.path.join(wd, 'crash.case')
            run([binary, '--fuzz-input', arts[0], '--out', cf])
            if os.path.exists(cf):
                fails.append((cf, 'crash', 'libFuzzer worker %d crashed: %s' % (k, logtxt[-1500:])))
    return stats, fails

def all_props():
    return sorted(os.path.basename(p)[:-4] for p in glob.glob(os.path.join(VERIF, 'props', 'C??.cpp')))

def prune_build(keep_days=2.0):
    # keep the cache bounded: drop objects/binaries not used for a while
    now = time.time()
    for d in ('obj', 'bin'):
        for p in glob.glob(os.path.join(BUILD, d, '*')):
            try:
                if now - os.stat(p).st_atime > keep_days * 86400 and now - os.stat(p).st_mtime > keep_days * 86400:
                    os.remove(p)
            except OSError:
                pass

# ------------------------------------------------------------------------------------------------------------------
EXTRA_ENV = {}

def san_env(rundir):
    env = dict(os.environ)
    env.update(EXTRA_ENV)
    # malloc_context_size: ASan records a stack trace per allocation in a depot that is never freed; with the default depth of 30 frames and
    # frame-pointer-less library code underneath, millions of distinct traces accumulate (5 GB per thorough shard, twice the run time); five
    # frames identify the allocation site and keep a shard below 0.5 GB
    env['ASAN_OPTIONS'] = 'detect_leaks=0:abort_on_error=0:exitcode=99:log_path=%s/asan:allocator_may_return_null=1:detect_stack_use_after_return=0:malloc_context_size=5' % rundir
    env['UBSAN_OPTIONS'] = 'print_stacktrace=1:exitcode=99:log_path=%s/ubsan' % rundir
    env['VERIF_DIR'] = VERIF
    env.pop('RC_PARAMS', None)
    return env

def known_findings(pid):
    out = []
    p = os.path.join(VERIF, 'known_findings.jsonl')
    if os.path.exists(p):
        for line in open(p):
            line = line.strip()
            if not line or line.startswith('#'):
                continue
            try:
                d = json.loads(line)
            except ValueError:
                continue
            if d.get('property') == pid or pid in d.get('properties', []):
                out.append(d)
    return out

def sanitizer_reports(rundir, limit=1500):
    txt = ''
    for p in sorted(glob.glob(os.path.join(rundir, 'asan.*')) + glob.glob(os.path.join(rundir, 'ubsan.*'))):
        try:
            txt += open(p, errors='replace').read()[:limit] + '\n'
        except OSError:
            pass
    return txt[:3 * limit]

def replay_once(binary, case, rundir, quiet=True, timeout=600):
    if case.endswith('.seq'):
        d = json.load(open(case))
        cmd = [binary, '--run', d['clause'], '--seed', str(d['seed']), '--tier', d['tier'], '--scale', str(d['scale']), '--shard', str(d['shard']),
               '--nshards', str(d['nshards']), '--out', os.path.join(rundir, 'replay_stats.json'), '--fail-dir', rundir]
        r = run(cmd, env=san_env(rundir), timeout=timeout)
        return (1 if r.returncode != 0 else 0), r.stdout
    r = run([binary, '--replay', case] + (['--quiet'] if quiet else []), env=san_env(rundir), timeout=timeout)
    return r.returncode, r.stdout

def check(pid, tier, repo, seed, scale, clauses, jobs, keep=False):
    t_start = time.time()
    b = Builder(repo)
    try:
        binary = b.build([pid], jobs)[pid]
    except RuntimeError as e:
        log('BUILD-ERROR', str(e)[-3000:])
        log('note: the library or harness did not compile; this is a machinery/build failure, not a verdict')
        return 2
    if pid == 'C20':
        try:
            EXTRA_ENV['VERIF_UNITS_DIR'] = build_units_probes(b)
        except RuntimeError as e:
            log('BUILD-ERROR', str(e)[-3000:]); return 2
    rundir = os.path.join(BUILD, 'run', '%s-%s-%d' % (pid, tier, os.getpid()))
    shutil.rmtree(rundir, ignore_errors=True)
    os.makedirs(rundir)
    # ---- regression tier: saved cases (shrunk reproducers of earlier findings and of seeded changes) replayed first, in milliseconds
    regress_fail = []
    regress_n = 0
    # (VERIF_NO_REGRESS=1 leaves them out: the seeded-change matrix measures what generation alone finds)
    for case in ([] if os.environ.get('VERIF_NO_REGRESS') == '1' else sorted(glob.glob(os.path.join(VERIF, 'regress', pid, '*.case')))):
        regress_n += 1
        rc0, _ = replay_once(binary, case, rundir)
        if rc0 == 1:
            regress_fail.append(case)
    nshards = min(jobs, 16 if tier == 'thorough' else 8)
    scale = scale * TIER_SCALE.get(pid, (1, 1))[1 if tier == 'thorough' else 0]
    env = san_env(rundir)
    procs = []
    for k in range(nshards):
        cmd = [binary, '--run', clauses or 'all', '--seed', str(seed), '--tier', tier, '--scale', str(scale), '--shard', str(k), '--nshards', str(nshards),
               '--max-size', ('200' if tier == 'thorough' else '100'), '--out', os.path.join(rundir, 'stats%d.json' % k), '--fail-dir', rundir, '--cur', os.path.join(rundir, 'cur%d.bin' % k)]
        procs.append((k, subprocess.Popen(cmd, env=env, stdout=open(os.path.join(rundir, 'out%d.txt' % k), 'w'), stderr=subprocess.STDOUT)))
    shard_rc = {}
    for k, p in procs:
        shard_rc[k] = p.wait()
    # ---- merge statistics
    merged = {}
    hashes = {}
    failures = []   # (clause, kind, case file, message, shard)
    for case in regress_fail:
        failures.append(('regress:' + os.path.basename(case)[:-5], 'fail', case, 'saved regression case fails again: ' + case, 0))
    for k in range(nshards):
        sp = os.path.join(rundir, 'stats%d.json' % k)
        if not os.path.exists(sp):
            # the shard died (sanitizer abort, signal, watchdog): the cur file holds the case that was running
            kind = 'timeout' if shard_rc[k] == 97 else 'crash'
            failures.append((None, kind, os.path.join(rundir, 'cur%d.bin' % k), 'shard %d died with status %s\n%s' % (k, shard_rc[k], sanitizer_reports(rundir)), k))
            continue
        d = json.load(open(sp))
        hp = sp + '.hashes'
        for cl, st in d['clauses'].items():
            m = merged.setdefault(cl, {'cases': 0, 'discards': 0, 'nontrivial': 0, 'classes': {}, 'worst_ratio': {}, 'excluded_known': {}, 'samples': [], 'wall_s': 0.0, 'rule': st.get('rule', '')})
            for key in ('cases', 'discards', 'nontrivial'):
                m[key] += st[key]
            m['wall_s'] = max(m['wall_s'], st['wall_s'])
            for c, n in st['classes'].items():
                m['classes'][c] = m['classes'].get(c, 0) + n
            for c, n in st['excluded_known'].items():
                m['excluded_known'][c] = m['excluded_known'].get(c, 0) + n
            for c, x in st['worst_ratio'].items():
                m['worst_ratio'][c] = max(m['worst_ratio'].get(c, 0.0), x)
            m['samples'] += st['samples']
            if st['status'] != 'pass':
                failures.append((cl, st['status'], st['fail_file'], st['fail_msg'], k))
        if os.path.exists(hp):
            raw = read(hp)
            hashes.setdefault('all', set()).update(struct.unpack('<%dQ' % (len(raw) // 8), raw))
    # ---- thorough tier: coverage-guided campaign on the same decoders (only if the generated phase found nothing)
    fuzz_stats = None
    if tier == 'thorough' and pid in FUZZ_RUNS and not failures and os.environ.get('VERIF_NO_FUZZ') != '1':
        try:
            fuzz_stats, ffails = fuzz_campaign(b, pid, binary, rundir, seed, float(os.environ.get('VERIF_FUZZ_SCALE', '1')), jobs)
            for cf, kind, msg in ffails:
                failures.append((None if kind == 'crash' else 'fuzz', kind, cf, msg, 0))
        except RuntimeError as e:
            log('FUZZ-BUILD-ERROR (campaign skipped, recorded in evidence):', str(e)[-1500:])
            fuzz_stats = {'error': str(e)[-500:]}
    # ---- adjudicate failures: shrink, replay three times
    violations = []
    unreproduced = []
    os.makedirs(os.path.join(VERIF, 'replays', pid), exist_ok=True)
    seen_clauses = set()
    for cl, kind, case, msg, k in failures:
        if cl in seen_clauses:
            continue
        if not case or not os.path.exists(case):
            unreproduced.append((cl, kind, msg)); continue
        rcs = [replay_once(binary, case, rundir)[0] for _ in range(2)]
        if all(rc == 1 for rc in rcs):
            shr = os.path.join(rundir, 'shrunk_%s_%d.case' % (cl or 'crash', k))
            r = run([binary, '--shrink', case, '--out', shr, '--budget', '1500' if tier == 'quick' else '4000', '--max-seconds', '60' if tier == 'quick' else '180'], env=env)
            final = shr if (r.returncode == 0 and os.path.exists(shr)) else case
            rcs2 = [replay_once(binary, final, rundir) for _ in range(3)]
            if not all(rc == 1 for rc, _ in rcs2):
                final = case
                rcs2 = [replay_once(binary, final, rundir) for _ in range(3)]
            if all(rc == 1 for rc, _ in rcs2):
                body = read(final)
                if body[:5] == b'VCUR1':   # binary cur file of a crashed shard: keep as is
                    ext = '.bin'
                else:
                    ext = '.case'
                dst = os.path.join(VERIF, 'replays', pid, '%s-%s%s' % (cl or 'crash', sha(body)[:10], ext))
                shutil.copy(final, dst)
                _, txt = replay_once(binary, dst, rundir, quiet=False)
                open(dst + '.txt', 'w').write(txt[-6000:] + '\n' + sanitizer_reports(rundir))
                violations.append((cl, kind, dst, msg, txt))
                seen_clauses.add(cl)
                continue
        # not reproducible from the single case: try the whole shard sequence (hidden state across cases)
        if cl is not None:
            seq = {'clause': cl, 'seed': seed, 'tier': tier, 'scale': scale, 'shard': k, 'nshards': nshards}
            sp = os.path.join(rundir, 'seq_%s_%d.seq' % (cl, k))
            json.dump(seq, open(sp, 'w'))
            rcs3 = [replay_once(binary, sp, rundir)[0] for _ in range(2)]
            if all(rc == 1 for rc in rcs3):
                dst = os.path.join(VERIF, 'replays', pid, '%s-seq-%s.seq' % (cl, sha(json.dumps(seq))[:10]))
                shutil.copy(sp, dst)
                violations.append((cl, kind + ' (reproducible only as a sequence of cases: state leaks between calls)', dst, msg, ''))
                seen_clauses.add(cl)
                continue
        unreproduced.append((cl, kind, msg))
    # ---- evidence
    evaluations = sum(m['cases'] for m in merged.values()) + (fuzz_stats.get('execs', 0) if fuzz_stats else 0)
    discards = sum(m['discards'] for m in merged.values())
    distinct_nt = len(hashes.get('all', ()))
    samples = []
    for cl, m in sorted(merged.items()):
        for s in m['samples'][:3]:
            samples.append({'clause': cl, 'case': s})
    rules = '; '.join('%s: %s' % (cl, m['rule']) for cl, m in sorted(merged.items()))
    kf = known_findings(pid)
    ev = {
        'property_id': pid, 'tier': tier, 'seed': seed, 'level': 'exploration',
        'coverage': {
            'evaluations': evaluations, 'distinct_nontrivial': distinct_nt,
            'rule': 'cases are decoded from rapidcheck-generated choice sequences (one decoder per clause, see props/%s.cpp); a case counts as non-trivial when: %s. distinct = distinct hash of the consumed choice words of a passing non-trivial case' % (pid, rules),
            'samples': samples[:24] if samples else [{'note': 'no case completed'}],
            'discarded': discards,
            'clauses': {cl: {k2: m[k2] for k2 in ('cases', 'discards', 'nontrivial', 'classes', 'worst_ratio', 'excluded_known', 'wall_s')} for cl, m in sorted(merged.items())},
            'shards': nshards, 'scale': scale, 'fuzz': fuzz_stats, 'regression_cases_replayed': regress_n,
            'unreproduced_failures': [{'clause': c, 'kind': kd, 'message': ms[:500]} for c, kd, ms in unreproduced],
            'known_findings': [{'id': f.get('id'), 'status': f.get('status'), 'what': f.get('what')} for f in kf],
            'violations_found': [{'clause': c, 'kind': kd, 'replay': dst, 'message': ms[:800]} for c, kd, dst, ms, _ in violations],
        },
        'assumptions': [
            'library rebuilt from %s working tree with g++ -O1 ASan+UBSan and -D%s; std::exit trapped by --wrap=exit + longjmp' % (b.repo, GUARD),
            'reference values: long double arithmetic and boost::math evaluated in long double (independent of the code under test)',
            'floating comparisons use the tolerances stated next to each assertion in props/%s.cpp; worst observed |err|/tol per assertion is in coverage.clauses.*.worst_ratio' % pid,
        ],
        'wall_s': round(time.time() - t_start, 2),
        'violations': len(violations),
    }
    if repo == '/repo':
        os.makedirs(os.path.join(VERIF, 'evidence'), exist_ok=True)
        tmp = os.path.join(VERIF, 'evidence', pid + '.json.tmp')
        json.dump(ev, open(tmp, 'w'), indent=1)
        os.replace(tmp, os.path.join(VERIF, 'evidence', pid + '.json'))
    else:
        json.dump(ev, open(os.path.join(rundir, 'evidence.json'), 'w'), indent=1)
    # ---- report
    log('%s %s seed=%d: %d cases (%d non-trivial distinct, %d discarded) in %d clauses, build %.1fs, total %.1fs' % (pid, tier, seed, evaluations, distinct_nt, discards, len(merged), b.build_s, time.time() - t_start))
    for cl, m in sorted(merged.items()):
        wr = max(m['worst_ratio'].values()) if m['worst_ratio'] else 0.0
        log('  %-22s cases=%-7d nontrivial=%-7d discards=%-5d worst|err|/tol=%.3g wall=%.1fs' % (cl, m['cases'], m['nontrivial'], m['discards'], wr, m['wall_s']))
    for f in kf:
        if f.get('status') == 'open':
            log('KNOWN-FINDING: property=%s %s [%s]' % (pid, f.get('what'), f.get('id')))
    rc = 0
    for c, kd, ms in unreproduced:
        log('INCONCLUSIVE: clause=%s kind=%s failure did not reproduce on replay (not reported as a violation): %s' % (c, kd, ms[:300].replace('\n', ' ')))
    for c, kd, dst, ms, txt in violations:
        log('VIOLATION property=%s replay=%s' % (pid, dst))
        log('  clause=%s kind=%s :: %s' % (c, kd, ms[:1200].replace('\n', ' | ')))
        rc = 1
    if evaluations == 0 and not violations:
        log('MACHINERY-ERROR: no case was executed')
        rc = 2
    elif discards > 0.5 * max(evaluations, 1) and not violations:
        log('MACHINERY-ERROR: generator degenerate, %d of %d cases discarded' % (discards, evaluations))
        rc = 2
    if not keep and rc == 0:
        shutil.rmtree(rundir, ignore_errors=True)
    prune_build()
    return rc

def main():
    a = sys.argv[1:]
    def opt(k, d=None):
        return a[a.index(k) + 1] if k in a else d
    repo = opt('--repo', '/repo')
    seed = int(opt('--seed', os.environ.get('VERIF_SEED', '1')) or 1)
    scale = float(opt('--scale', os.environ.get('VERIF_SCALE', '1')) or 1)
    jobs = int(opt('--jobs', str(NCPU)))
    if '--setup' in a:
        t0 = time.time()
        try:
            bins = Builder(repo).build(all_props(), jobs)
        except RuntimeError as e:
            log('SETUP-ERROR', e); return 2
        if 'C20' in bins:
            try:
                build_units_probes(Builder(repo))
            except RuntimeError as e:
                log('SETUP-ERROR', e); return 2
        log('setup: built %d property binaries in %.1fs' % (len(bins), time.time() - t0))
        return 0
    if '--replay' in a:
        case = opt('--replay')
        pid = None
        if case.endswith('.seq'):
            pid = os.path.basename(os.path.dirname(os.path.abspath(case)))
        else:
            raw = read(case)
            if raw[:5] == b'VCUR1':
                pid = os.path.basename(os.path.dirname(os.path.abspath(case)))
            else:
                for line in raw.decode(errors='replace').splitlines():
                    if line.startswith('property '):
                        pid = line.split()[1]; break
        pid = opt('--property', pid)
        if pid not in all_props():
            log('cannot determine the property of', case); return 2
        bb = Builder(repo)
        binary = bb.build([pid], jobs)[pid]
        if pid == 'C20':
            EXTRA_ENV['VERIF_UNITS_DIR'] = build_units_probes(bb)
        rundir = os.path.join(BUILD, 'run', 'replay-%d' % os.getpid())
        os.makedirs(rundir, exist_ok=True)
        rc, txt = replay_once(binary, case, rundir, quiet=False)
        log(txt[-8000:])
        rep = sanitizer_reports(rundir)
        if rep:
            log(rep)
        shutil.rmtree(rundir, ignore_errors=True)
        if rc == 1:
            log('VIOLATION property=%s replay=%s' % (pid, os.path.abspath(case)))
        return 1 if rc == 1 else (0 if rc == 0 else 2)
    pos = [x for x in a if not x.startswith('--')]
    if len(pos) >= 2 and pos[0] in all_props() and pos[1] in ('quick', 'thorough'):
        tier = os.environ.get('VERIF_TIER_OVERRIDE', pos[1])
        return check(pos[0], tier, repo, seed, scale, opt('--clauses'), jobs, keep='--keep' in a)
    log(__doc__)
    return 2

if __name__ == '__main__':
    sys.exit(main())
