// C10 Meaningless requests stop the program with a diagnostic; valid ones never do (both sides of every guard, under ASan+UBSan)
#include "../engine/harness.hpp"
#include "../engine/interp_common.hpp"
#include "../engine/lacommon.hpp"

#include <fstream>
#include <iostream>
#include <random>
#include <string>
#include <unistd.h>
#include <vector>

#include "libphysica/Integration.hpp"
#include "libphysica/Linear_Algebra.hpp"
#include "libphysica/List_Manipulations.hpp"
#include "libphysica/Natural_Units.hpp"
#include "libphysica/Numerics.hpp"
#include "libphysica/Special_Functions.hpp"
#include "libphysica/Statistics.hpp"
#include "libphysica/Utilities.hpp"

using namespace vf;
using namespace libphysica;
const char* const vf::kPropertyId = "C10";

// One request on one side of its guard. `ok` is decided from the property text (is the request mathematically meaningful?), never
// from the code. A meaningful request must return normally; a meaningless one must exit with failure status and a diagnostic.
#define REQUEST(c, name, ok, ...)                               \
	do                                                          \
	{                                                           \
		if(ok)                                                  \
		{                                                       \
			(c).cls(name "/accepted");                          \
			VMUST_RETURN(name " (meaningful request)", __VA_ARGS__); \
		}                                                       \
		else                                                    \
		{                                                       \
			(c).cls(name "/rejected");                          \
			VMUST_EXIT(name " (meaningless request)", __VA_ARGS__); \
		}                                                       \
	} while(0)

namespace
{
// index on both sides of size: size-1, size, size+1, UINT_MAX, random inside
unsigned gen_index(Src& s, unsigned size, bool& ok)
{
	unsigned i;
	switch(s.pick({2, 2, 1, 1, 1, 1}))
	{
		case 0: i = size - 1; break;
		case 1: i = size; break;
		case 2: i = size + 1; break;
		case 3: i = 4294967295u; break;
		case 4: i = (unsigned) s.range(0, (long) size - 1); break;
		default: i = (unsigned) s.range((long) size, (long) size + 1000); break;
	}
	ok = i < size;
	return i;
}
volatile double g_sink;
}	// namespace

// ---- vectors and matrices ------------------------------------------------------------------------------------------
VCLAUSE(linear_algebra, 120, 30000, 600000, "the request lies within one step of the guard boundary (index = size-1/size/size+1, shapes equal/transposed/off by one)")
{
	Src& s = c.s;
	c.nt();
	int m = (int) s.range(1, 6), n = (int) s.range(1, 6);
	Rows a = gen_entries(s, m, n, 0);
	Matrix A(a);
	Vector V(a[0]);
	int which = (int) s.range(0, 17);
	bool ok	  = true;
	switch(which)
	{
		case 0:
		{
			unsigned i = gen_index(s, (unsigned) n, ok);
			VLOG(c, "Vector(" << n << ")[" << i << "]");
			if(s.coin())
				REQUEST(c, "Vector::operator[]", ok, g_sink = V[i]);
			else
			{
				const Vector& CV = V;
				REQUEST(c, "Vector::operator[] const", ok, g_sink = CV[i]);
			}
			if(ok)
				VCHECK(g_sink == a[0][i], "V[" << i << "]");
			break;
		}
		case 1:
		{
			unsigned i = gen_index(s, (unsigned) m, ok);
			VLOG(c, "Matrix(" << m << "x" << n << ")[" << i << "]");
			if(s.coin())
				REQUEST(c, "Matrix::operator[]", ok, g_sink = A[i][0]);
			else
			{
				const Matrix& CA = A;
				REQUEST(c, "Matrix::operator[] const", ok, g_sink = CA[i][0]);
			}
			break;
		}
		case 2:
		{
			unsigned i = gen_index(s, (unsigned) m, ok);
			VLOG(c, "Matrix(" << m << "x" << n << ").Return_Row(" << i << ")");
			REQUEST(c, "Matrix::Return_Row", ok, Vector r = A.Return_Row(i); g_sink = r[0]);
			break;
		}
		case 3:
		{
			unsigned i = gen_index(s, (unsigned) n, ok);
			VLOG(c, "Matrix(" << m << "x" << n << ").Return_Column(" << i << ")");
			REQUEST(c, "Matrix::Return_Column", ok, Vector r = A.Return_Column(i); g_sink = r[0]);
			break;
		}
		case 4:
		{
			unsigned i = gen_index(s, (unsigned) m, ok);
			VLOG(c, "Matrix(" << m << "x" << n << ").Delete_Row(" << i << ")");
			REQUEST(c, "Matrix::Delete_Row", ok, Matrix B(A); B.Delete_Row(i); g_sink = B.Rows());
			break;
		}
		case 5:
		{
			unsigned i = gen_index(s, (unsigned) n, ok);
			VLOG(c, "Matrix(" << m << "x" << n << ").Delete_Column(" << i << ")");
			REQUEST(c, "Matrix::Delete_Column", ok, Matrix B(A); B.Delete_Column(i); g_sink = B.Columns());
			break;
		}
		case 6:
		{
			bool okr, okc;
			unsigned i = gen_index(s, (unsigned) m, okr), j = gen_index(s, (unsigned) n, okc);
			if(i > 2147483647u)
				i = (unsigned) m + 2;
			if(j > 2147483647u)
				j = (unsigned) n + 2;
			okr = i < (unsigned) m;
			okc = j < (unsigned) n;
			VLOG(c, "Matrix(" << m << "x" << n << ").Sub_Matrix(" << i << "," << j << ")");
			REQUEST(c, "Matrix::Sub_Matrix", okr && okc, Matrix B = A.Sub_Matrix((int) i, (int) j); g_sink = B.Rows());
			break;
		}
		case 7:
		case 8:
		{
			// sums: shapes equal / transposed / off by one
			int p = m, q = n;
			int rel = s.pick({3, 2, 1, 1});
			if(rel == 1)
			{
				p = n;
				q = m;
			}
			else if(rel == 2)
				p = m + 1;
			else if(rel == 3)
				q = n + 1;
			ok = (p == m && q == n);
			Matrix B(gen_entries(s, p, q, 0));
			int op = (int) s.range(0, 5);
			VLOG(c, "Matrix(" << m << "x" << n << ") op" << op << " Matrix(" << p << "x" << q << ")");
			REQUEST(c, "Matrix sum/difference", ok, Matrix R; Matrix T(A); switch(op) {
				case 0: R = A.Plus(B); break;
				case 1: R = A + B; break;
				case 2: T += B; break;
				case 3: R = A.Minus(B); break;
				case 4: R = A - B; break;
				default: T -= B; break;
			} g_sink = R.Rows() + T.Rows());
			break;
		}
		case 9:
		{
			int p  = s.pick({2, 1, 1}) == 0 ? n : (s.coin() ? n + 1 : std::max(1, n - 1));
			ok	   = (p == n);
			Matrix B(gen_entries(s, p, (int) s.range(1, 5), 0));
			VLOG(c, "Matrix(" << m << "x" << n << ") * Matrix(" << p << "x" << B.Columns() << ")");
			REQUEST(c, "Matrix product", ok, Matrix R = s.coin() ? A.Product(B) : A * B; g_sink = R.Rows());
			break;
		}
		case 10:
		{
			int p = s.pick({2, 1, 1}) == 0 ? n : (s.coin() ? n + 1 : std::max(1, n - 1));
			ok	  = (p == n);
			Vector W((unsigned) p, 1.5);
			VLOG(c, "Matrix(" << m << "x" << n << ") * Vector(" << p << ")");
			REQUEST(c, "Matrix*Vector", ok, Vector R = s.coin() ? A.Product(W) : A * W; g_sink = R.Size());
			break;
		}
		case 11:
		{
			int p = s.pick({2, 1, 1}) == 0 ? m : (s.coin() ? m + 1 : std::max(1, m - 1));
			ok	  = (p == m);
			Vector W((unsigned) p, 1.5);
			VLOG(c, "Vector(" << p << ") * Matrix(" << m << "x" << n << ")");
			REQUEST(c, "Vector*Matrix", ok, Vector R = W * A; g_sink = R.Size());
			break;
		}
		case 12:
		{
			int p = s.pick({2, 1, 1}) == 0 ? n : (s.coin() ? n + 1 : std::max(1, n - 1));
			ok	  = (p == n);
			Vector W((unsigned) p, 0.5);
			int op = (int) s.range(0, 5);
			VLOG(c, "Vector(" << n << ") op" << op << " Vector(" << p << ")");
			REQUEST(c, "Vector sum/difference/dot", ok, Vector R; Vector T(V); switch(op) {
				case 0: R = V + W; break;
				case 1: R = V - W; break;
				case 2: T += W; break;
				case 3: T -= W; break;
				case 4: g_sink = V.Dot(W); break;
				default: g_sink = V * W; break;
			} g_sink = R.Size() + T.Size());
			break;
		}
		case 13:
		{
			int da = s.pick({2, 1, 1}) == 0 ? 3 : (s.coin() ? 2 : 4), db = s.pick({2, 1, 1}) == 0 ? 3 : (s.coin() ? 2 : 4);
			ok	   = (da == 3 && db == 3);
			Vector X((unsigned) da, 1.0), Y((unsigned) db, 2.0);
			VLOG(c, "Vector(" << da << ").Cross(Vector(" << db << "))");
			REQUEST(c, "Vector::Cross", ok, Vector R = X.Cross(Y); g_sink = R.Size());
			break;
		}
		case 14:
		{
			int what = (int) s.range(0, 2);
			ok		 = (m == n);
			if(ok && what == 2)
			{
				// make it invertible: unit diagonal dominant
				for(int i = 0; i < m; i++)
					a[i][i] = 100;
				A = Matrix(a);
			}
			VLOG(c, "Matrix(" << m << "x" << n << ") Trace/Determinant/Inverse which=" << what);
			if(what == 0)
				REQUEST(c, "Matrix::Trace", ok, g_sink = A.Trace());
			else if(what == 1)
				REQUEST(c, "Matrix::Determinant", ok, g_sink = A.Determinant());
			else
				REQUEST(c, "Matrix::Inverse", ok, Matrix R = A.Inverse(); g_sink = R.Rows());
			break;
		}
		case 15:
		{
			int dim = s.pick({2, 2, 1, 1, 1}) < 2 ? (s.coin() ? 2 : 3) : (int) s.range(-1, 5);
			int ax	= s.pick({3, 1, 1}) == 0 ? 3 : (s.coin() ? 2 : 4);
			ok		= (dim == 2) || (dim == 3 && ax == 3);
			Vector axis((unsigned) ax, 1.0);
			VLOG(c, "Rotation_Matrix(0.3," << dim << ",Vector(" << ax << "))");
			REQUEST(c, "Rotation_Matrix", ok, Matrix R = Rotation_Matrix(0.3, dim, axis); g_sink = R.Rows());
			break;
		}
		case 16:
		{
			// ragged nested initialiser
			Rows r = a;
			bool ragged = s.coin();
			if(ragged)
			{
				if(m >= 2)
					r[(size_t) s.range(1, m - 1)].push_back(1.0);
				else
					ragged = false;
			}
			VLOG(c, "Matrix(entries) ragged=" << ragged);
			REQUEST(c, "Matrix(entries)", !ragged, Matrix R(r); g_sink = R.Rows());
			break;
		}
		default:
		{
			// block constructor with consistent / inconsistent blocks
			Matrix B11(2, 2, 1.0), B12(2, 3, 2.0), B21(1, 2, 3.0), B22(1, 3, 4.0);
			bool bad = s.coin();
			int kind = (int) s.range(0, 1);
			if(bad)
			{
				if(kind == 0)
					B22 = Matrix(1, 2, 4.0);   // column count differs from the block above
				else
					B12 = Matrix(3, 3, 2.0);   // row count differs from the block to the left
			}
			VLOG(c, "block constructor bad=" << bad << " kind=" << kind);
			REQUEST(c, "Matrix(blocks)", !bad, Matrix R({{B11, B12}, {B21, B22}}); g_sink = R.Rows());
			break;
		}
	}
}

// guards follow the *current* shape after any sequence of shape-changing operations
VCLAUSE(shape_history, 200, 8000, 200000, "at least two shape-changing operations precede the probed guard and one of them shrinks or grows the column count")
{
	Src& s = c.s;
	int m = (int) s.range(1, 5), n = (int) s.range(1, 5);
	Matrix A(gen_entries(s, m, n, 0));
	Vector V((unsigned) n, 1.0);
	int vn	 = n;
	int nops = (int) s.range(1, 6);
	bool col_change = false;
	VLOG(c, "start " << m << "x" << n);
	for(int op = 0; op < nops; op++)
	{
		int kind = (int) s.range(0, 6);
		int m0 = m, n0 = n;
		switch(kind)
		{
			case 0:
				m = (int) s.range(1, 6);
				n = (int) s.range(1, 6);
				VMUST_RETURN("Matrix::Resize", A.Resize(m, n));
				break;
			case 1:
				m = (int) s.range(1, 6);
				n = (int) s.range(1, 6);
				VMUST_RETURN("Matrix::Assign", A.Assign(m, n, 2.0));
				break;
			case 2:
				if(m >= 2)
				{
					VMUST_RETURN("Matrix::Delete_Row", A.Delete_Row((unsigned) s.range(0, m - 1)));
					m--;
				}
				break;
			case 3:
				if(n >= 2)
				{
					VMUST_RETURN("Matrix::Delete_Column", A.Delete_Column((unsigned) s.range(0, n - 1)));
					n--;
				}
				break;
			case 4:
				VMUST_RETURN("Matrix::Transpose", A = A.Transpose());
				std::swap(m, n);
				break;
			case 5:
				vn = (int) s.range(1, 6);
				VMUST_RETURN("Vector::Resize", V.Resize((unsigned) vn));
				break;
			default:
				vn = (int) s.range(1, 6);
				VMUST_RETURN("Vector::Assign", V.Assign((unsigned) vn, 3.0));
				break;
		}
		if(n != n0)
			col_change = true;
		(void) m0;
		VLOG(c, "op " << op << " kind " << kind << " -> matrix " << m << "x" << n << ", vector " << vn);
		VCHECK((int) A.Rows() == m && (int) A.Columns() == n && (int) V.Size() == vn, "reported shape " << A.Rows() << "x" << A.Columns() << "/" << V.Size() << " after op " << op << ", expected " << m << "x" << n << "/" << vn);
		if(op >= 1 && col_change)
			c.nt();
		// probe one guard against the current shape
		bool ok;
		switch((int) s.range(0, 8))
		{
			case 0:
			{
				unsigned i = gen_index(s, (unsigned) m, ok);
				REQUEST(c, "history: Matrix row index", ok, g_sink = A[i][0]);
				break;
			}
			case 1:
			{
				// every row has exactly `columns` entries: the row vector accepts index n-1 and rejects n
				unsigned r = (unsigned) s.range(0, m - 1);
				unsigned j = gen_index(s, (unsigned) n, ok);
				REQUEST(c, "history: Return_Row()[j]", ok, Vector row = A.Return_Row(r); g_sink = row.Size(); g_sink = row[j]);
				break;
			}
			case 2:
			{
				unsigned j = gen_index(s, (unsigned) n, ok);
				REQUEST(c, "history: Return_Column", ok, Vector col = A.Return_Column(j); g_sink = col[(unsigned) m - 1]);
				break;
			}
			case 3:
			{
				int p = m + (int) s.range(0, 1), q = n + ((p == m) ? (int) s.range(0, 1) : 0);
				Matrix B((unsigned) p, (unsigned) q, 1.0);
				ok = (p == m && q == n);
				REQUEST(c, "history: Matrix sum", ok, Matrix R = s.coin() ? A + B : A - B; Matrix T(A); T += B; g_sink = R[(unsigned) m - 1][(unsigned) n - 1] + T[(unsigned) m - 1][(unsigned) n - 1]);
				break;
			}
			case 4:
			{
				int p = s.coin() ? n : n + (s.coin() ? 1 : -1);
				if(p < 1)
					p = n + 1;
				Vector W((unsigned) p, 1.0);
				ok = (p == n);
				REQUEST(c, "history: Matrix*Vector", ok, Vector R = A * W; g_sink = R[(unsigned) m - 1]);
				break;
			}
			case 5:
			{
				Matrix T;
				REQUEST(c, "history: Transpose twice", true, T = A.Transpose(); Matrix TT = T.Transpose(); g_sink = TT[(unsigned) m - 1][(unsigned) n - 1]);
				VCHECK((int) T.Rows() == n && (int) T.Columns() == m, "Transpose shape after history");
				break;
			}
			case 6:
			{
				unsigned i = gen_index(s, (unsigned) vn, ok);
				REQUEST(c, "history: Vector index", ok, g_sink = V[i]);
				break;
			}
			case 7:
			{
				int p = s.coin() ? vn : vn + 1;
				Vector W((unsigned) p, 1.0);
				ok = (p == vn);
				REQUEST(c, "history: Vector sum/dot", ok, Vector R = V + W; Vector T(V); T -= W; g_sink = R[(unsigned) vn - 1] + V.Dot(W));
				break;
			}
			default:
			{
				ok = (m == n);
				REQUEST(c, "history: Trace", ok, g_sink = A.Trace());
				break;
			}
		}
	}
}

// ---- interpolation --------------------------------------------------------------------------------------------------
VCLAUSE(interpolation, 400, 30000, 600000, "argument within a factor 1+-1e-6 of the extrapolation tolerance, table length 0..3, or an abscissa pair equal / swapped")
{
	Src& s = c.s;
	c.nt();
	int which = (int) s.range(0, 6);
	if(which <= 2)
	{
		// argument relative to the tabulated domain: at, just inside, just outside the 1% tolerance at both ends
		int N = (int) s.range(3, 12);
		std::vector<double> x = gen_abscissae(s, N, 3.0), y = gen_ordinates(s, N);
		Interpolation f;
		VMUST_RETURN("Interpolation constructor", f = Interpolation(x, y));
		bool left	 = s.coin();
		double h	 = left ? x[1] - x[0] : x[N - 1] - x[N - 2];
		double edge	 = left ? x[0] : x[N - 1];
		double frac;   // distance outside the domain in units of the edge interval
		switch(s.pick({2, 2, 2, 1, 1, 1}))
		{
			case 0: frac = 0.01 * (1 - std::pow(10.0, s.uniform(-6, -1))); break;	 // just inside the tolerance
			case 1: frac = 0.01 * (1 + std::pow(10.0, s.uniform(-6, -1))); break;	 // just outside
			case 2: frac = 0.0; break;												 // on the domain end
			case 3: frac = -s.unit(); break;										 // inside the domain
			case 4: frac = std::pow(10.0, s.uniform(-1.9, 3)); break;				 // far outside
			default: frac = 0.01 * s.unit() * 0.99; break;
		}
		double xq = left ? edge - frac * h : edge + frac * h;
		// the requested point as a double: decide the side from the value actually passed
		long double dist = left ? (long double) edge - xq : (long double) xq - edge;
		bool ok			 = dist <= 0.01L * h * (1 - 1e-9L);
		bool reject		 = dist >= 0.01L * h * (1 + 1e-9L);
		if(!ok && !reject)
			throw Discard();   // within rounding of the boundary itself: either answer is acceptable
		// rounding of x can also push the point across when h is tiny relative to |x|
		if(std::fabs((double) dist) < 4 * ulp_of(edge) && dist != 0)
			throw Discard();
		int fn = which == 0 ? (int) s.range(0, 2) : (which == 1 ? 3 + (int) s.range(0, 2) : 6);
		double inside = x[0] + 0.4 * (x[N - 1] - x[0]);
		VLOG(c, "table x=" << show(x) << " query at " << xq << " (" << (left ? "left" : "right") << " end, distance " << (double) dist << " = " << (double) (dist / h) << " edge intervals) fn=" << fn);
		switch(fn)
		{
			case 0: REQUEST(c, "Interpolation::Interpolate", ok, g_sink = f.Interpolate(xq)); break;
			case 1: REQUEST(c, "Interpolation::operator()", ok, g_sink = f(xq)); break;
			case 2: REQUEST(c, "Interpolation::Derivative", ok, g_sink = f.Derivative(xq, (unsigned) s.range(0, 3))); break;
			case 3: REQUEST(c, "Interpolation::Integrate", ok, g_sink = s.coin() ? f.Integrate(inside, xq) : f.Integrate(xq, inside)); break;
			case 4:
				if(left)
					REQUEST(c, "Interpolation::Local_Minimum", ok, g_sink = f.Local_Minimum(std::min(xq, inside), std::max(xq, inside)));
				else
					REQUEST(c, "Interpolation::Local_Maximum", ok, g_sink = f.Local_Maximum(std::min(xq, inside), std::max(xq, inside)));
				break;
			case 5: REQUEST(c, "Interpolation::Locate", ok, g_sink = f.Locate(xq)); break;
			default:
			{
				int M = (int) s.range(2, 5);
				std::vector<double> yy = gen_abscissae(s, M, 2.0);
				std::vector<std::vector<double>> fv(N, std::vector<double>(M, 1.0));
				Interpolation_2D g;
				VMUST_RETURN("Interpolation_2D constructor", g = Interpolation_2D(x, yy, fv));
				double ymid = 0.5 * (yy[0] + yy[M - 1]);
				if(s.coin())
					REQUEST(c, "Interpolation_2D::Interpolate (x)", ok, g_sink = g(xq, ymid));
				else
				{
					// same test along y: rebuild with the roles exchanged
					Interpolation_2D g2;
					std::vector<std::vector<double>> fv2(M, std::vector<double>(N, 1.0));
					VMUST_RETURN("Interpolation_2D constructor", g2 = Interpolation_2D(yy, x, fv2));
					REQUEST(c, "Interpolation_2D::Interpolate (y)", ok, g_sink = g2(ymid, xq));
				}
				break;
			}
		}
		return;
	}
	if(which == 3)
	{
		// Local_Minimum/Maximum argument order
		int N = (int) s.range(3, 10);
		std::vector<double> x = gen_abscissae(s, N, 2.0), y = gen_ordinates(s, N);
		Interpolation f;
		VMUST_RETURN("Interpolation constructor", f = Interpolation(x, y));
		double a = x[0] + (x[N - 1] - x[0]) * s.unit(), b = s.chance(0.2) ? a : x[0] + (x[N - 1] - x[0]) * s.unit();
		bool ok = a <= b;
		VLOG(c, "Local extremum argument order a=" << a << " b=" << b);
		if(s.coin())
			REQUEST(c, "Interpolation::Local_Minimum order", ok, g_sink = f.Local_Minimum(a, b));
		else
			REQUEST(c, "Interpolation::Local_Maximum order", ok, g_sink = f.Local_Maximum(a, b));
		return;
	}
	if(which == 4)
	{
		// table lengths 0,1,2,3 and unequal list lengths
		int N	  = (int) s.range(0, 4);
		int extra = s.pick({3, 1, 1}) == 0 ? 0 : (s.coin() ? 1 : -1);
		std::vector<double> x(N), y(std::max(0, N + extra));
		for(int i = 0; i < N; i++)
			x[i] = 1.5 * i - 1;
		for(size_t i = 0; i < y.size(); i++)
			y[i] = (double) ((i * 7) % 5);
		bool pairs = s.coin() && extra == 0;
		VLOG(c, "Interpolation table of length " << N << " with " << y.size() << " ordinates, pairs=" << pairs);
		std::vector<std::vector<double>> d;
		for(int i = 0; i < N && pairs; i++)
			d.push_back({x[i], y[i]});
		auto build_and_use = [&]() {
			Interpolation f = pairs ? Interpolation(d) : Interpolation(x, y);
			// a table that is accepted must be usable: evaluate at both ends and in the middle
			g_sink = f(x[0]) + f(x[N - 1]) + f(0.5 * (x[0] + x[N - 1])) + f.Derivative(x[0], 1) + f.Integrate(x[0], x[N - 1]);
		};
		if((int) y.size() != N)
			REQUEST(c, "Interpolation(lists) length mismatch", false, build_and_use());
		else if(N <= 1)
			REQUEST(c, "Interpolation(table) too short", false, build_and_use());
		else if(N == 2)
		{
			// two points: either rejected with a diagnostic or accepted as the straight line; never a memory error
			c.cls("Interpolation two points/either");
			double v   = 0;
			GuardResult g = guarded([&]() { Interpolation f = pairs ? Interpolation(d) : Interpolation(x, y); v = f(0.5 * (x[0] + x[1])); });
			if(g.exited)
				VCHECK(g.code != 0 && g.output, "two-point table rejected without failure status/diagnostic");
			else
				VCLOSE(c, "two_point_line", v, 0.5 * (y[0] + y[1]), 8 * EPS * (std::fabs(y[0]) + std::fabs(y[1])), "two-point table accepted but not the straight line");
		}
		else
			REQUEST(c, "Interpolation(table) long enough", true, build_and_use());
		return;
	}
	if(which == 5)
	{
		// abscissae not strictly increasing: equal or swapped neighbours; ragged pair tables
		int N = (int) s.range(3, 9);
		std::vector<double> x = gen_abscissae(s, N, 2.0), y = gen_ordinates(s, N);
		int defect = s.pick({2, 1, 1, 1});
		int k	   = (int) s.range(0, N - 2);
		if(defect == 1)
			x[k + 1] = x[k];
		else if(defect == 2)
			std::swap(x[k], x[k + 1]);
		bool pairs = s.coin() || defect == 3;
		std::vector<std::vector<double>> d;
		for(int i = 0; i < N; i++)
			d.push_back({x[i], y[i]});
		if(defect == 3)
		{
			if(s.coin())
				d[(size_t) k].push_back(1.0);
			else
				d[(size_t) k].pop_back();
		}
		VLOG(c, "Interpolation constructor defect=" << defect << " at " << k << " pairs=" << pairs << " x=" << show(x));
		REQUEST(c, "Interpolation constructor validation", defect == 0, Interpolation f = pairs ? Interpolation(d) : Interpolation(x, y); g_sink = f(x[0]));
		return;
	}
	// which == 6: Interpolation_2D tables
	{
		int nx = (int) s.range(2, 5), ny = (int) s.range(2, 5);
		std::vector<double> x = gen_abscissae(s, nx, 2.0), y = gen_abscissae(s, ny, 2.0);
		std::vector<std::vector<double>> fv(nx, std::vector<double>(ny, 2.0));
		int defect = s.pick({3, 1, 1, 1, 1, 1, 1});
		bool table = false;
		std::vector<std::vector<double>> tab;
		switch(defect)
		{
			case 1: fv[(size_t) s.range(0, nx - 1)].pop_back(); break;	 // ragged
			case 2: fv.pop_back(); break;								 // too few rows
			case 3: fv[(size_t) s.range(0, nx - 1)].push_back(1.0); break;
			case 4: x[1] = x[0]; break;									 // not strictly increasing
			case 5:
			case 6: table = true; break;
			default: table = s.coin(); break;
		}
		if(table)
		{
			for(int i = 0; i < nx; i++)
				for(int j = 0; j < ny; j++)
					tab.push_back({x[i], y[j], 2.0});
			if(defect == 5)
				tab[(size_t) s.range(0, (long) tab.size() - 1)].pop_back();	  // row with 2 entries
			if(defect == 6)
				tab.pop_back();	  // incomplete grid
		}
		VLOG(c, "Interpolation_2D constructor defect=" << defect << " table=" << table << " grid " << nx << "x" << ny);
		double xm = 0.5 * (x[0] + x[nx - 1]), ym = 0.5 * (y[0] + y[ny - 1]);
		REQUEST(c, "Interpolation_2D constructor validation", defect == 0, Interpolation_2D f = table ? Interpolation_2D(tab) : Interpolation_2D(x, y, fv); g_sink = f(xm, ym) + f(x[nx - 1], y[ny - 1]));
	}
}

// ---- root finding, integration methods ------------------------------------------------------------------------------
VCLAUSE(numerics, 60, 12000, 250000, "method name differs from a valid one by one character, or the bracket ends have equal sign with a root pair inside")
{
	Src& s = c.s;
	c.nt();
	int which = (int) s.range(0, 4);
	static const char* valid1d[] = {"Trapezoidal", "Gauss-Legendre", "Gauss-Kronrod", "Tanh-Sinh", "Gauss-Legendre_2", "Adaptive-Simpson"};
	static const char* validmc[] = {"Monte-Carlo", "Vegas", "Miser"};
	auto mutate = [&](std::string m) {
		switch(s.pick({1, 1, 1, 1}))
		{
			case 0: m[(size_t) s.range(0, (long) m.size() - 1)] ^= 0x20; break;	  // case flip
			case 1: m.pop_back(); break;
			case 2: m += " "; break;
			default: m = s.coin() ? "" : "Simpson"; break;
		}
		return m;
	};
	auto f1 = [](double x) { return 1.0 + x * x; };
	if(which == 0)
	{
		std::string m = valid1d[s.range(0, 5)];
		bool ok		  = s.coin();
		if(!ok)
			m = mutate(m);
		for(auto v : valid1d)
			if(m == v)
				ok = true;
		// also with equal limits: the integral is zero for every known method, and an unknown method is still unknown
		double hi1 = s.chance(0.25) ? 0.0 : 1.0;
		VLOG(c, "Integrate(f,0," << hi1 << ",\"" << m << "\")");
		REQUEST(c, "Integrate(method)", ok, g_sink = Integrate(f1, 0.0, hi1, m));
	}
	else if(which == 1)
	{
		bool mc		  = s.chance(0.3);
		std::string m = mc ? validmc[s.range(0, 2)] : valid1d[s.range(0, 5)];
		bool ok		  = s.coin();
		if(!ok)
			m = mutate(m);
		for(auto v : valid1d)
			if(m == v)
				ok = true;
		for(auto v : validmc)
			if(m == v)
				ok = true;
		bool three = s.coin();
		VLOG(c, (three ? "Integrate_3D" : "Integrate_2D") << "(f,...,\"" << m << "\")");
		auto f2 = [](double x, double y) { return 1.0 + x * y; };
		auto f3 = [](double x, double y, double z) { return 1.0 + x * y * z; };
		int par = (m == "Monte-Carlo" || m == "Vegas" || m == "Miser") ? 2000 : ((m == "Gauss-Legendre_2" || m == "Gauss-Kronrod") ? 4 : 0);
		// one axis may be degenerate (equal limits): still zero for a known method, still a diagnostic for an unknown one
		int deg	   = s.chance(0.3) ? (int) s.range(0, three ? 2 : 1) : -1;
		bool is_mc = (m == "Monte-Carlo" || m == "Vegas" || m == "Miser");
		if(is_mc)
			deg = -1;	// (a Monte Carlo box of zero volume is not probed here)
		double x2 = deg == 0 ? 0.0 : 1.0, y2 = deg == 1 ? 0.0 : 0.5, z2 = deg == 2 ? 0.0 : 0.25;
		if(three)
			REQUEST(c, "Integrate_3D(method)", ok, g_sink = Integrate_3D(f3, 0.0, x2, 0.0, y2, 0.0, z2, m, par));
		else
			REQUEST(c, "Integrate_2D(method)", ok, g_sink = Integrate_2D(f2, 0.0, x2, 0.0, y2, m, par));
	}
	else if(which == 2)
	{
		std::string m = validmc[s.range(0, 2)];
		bool ok		  = s.coin();
		if(!ok)
			m = mutate(m);
		for(auto v : validmc)
			if(m == v)
				ok = true;
		std::function<double(std::vector<double>&, const double)> g = [](std::vector<double>& x, const double) { return x[0] + x[1]; };
		std::vector<double> region = {0.0, 0.0, 1.0, 2.0};
		VLOG(c, "Integrate_MC(f,region,1000,\"" << m << "\")");
		REQUEST(c, "Integrate_MC(method)", ok, g_sink = Integrate_MC(g, region, 1000, m));
	}
	else if(which == 3)
	{
		// Gauss-Legendre: value list and rule of equal / different length
		int n = (int) s.range(1, 12);
		int k = s.pick({2, 1, 1, 1}) == 0 ? n : (s.coin() ? n + 1 : (s.coin() ? n - 1 : 0));
		std::vector<std::vector<double>> rule;
		VMUST_RETURN("Compute_Gauss_Legendre_Roots_and_Weights", rule = Compute_Gauss_Legendre_Roots_and_Weights((unsigned) n, -1.0, 2.0));
		std::vector<double> vals((size_t) k, 1.0);
		VLOG(c, "Integrate_Gauss_Legendre(values[" << k << "], rule[" << n << "])");
		REQUEST(c, "Integrate_Gauss_Legendre(values,rule)", k == n, g_sink = Integrate_Gauss_Legendre(vals, rule));
	}
	else
	{
		// root bracket: sign change / none / NaN
		double a = s.mixed(-3, 3), w = std::pow(10.0, s.uniform(-3, 3)), b = a + w;
		int kind = s.pick({2, 1, 1, 1});
		std::function<double(double)> f;
		double nanv = std::numeric_limits<double>::quiet_NaN();
		if(kind == 0)
			f = [=](double x) { return x - (a + 0.3 * w); };
		else if(kind == 1)
			f = [=](double x) { return 1.0 + (x - a) * (x - a); };
		else if(kind == 2)
			f = [=](double x) { double t = (x - a) / w; return (t - 0.3) * (t - 0.6); };	// two roots inside, equal signs at the ends
		else
			f = [=](double x) { return x == a ? nanv : x - (a + 0.3 * w); };
		if(!(a < b))
			throw Discard();
		bool forward = s.coin();
		// the function's own scale is no part of the request: values whose product under- or overflows still have (or lack) a sign change.
		// Drawn last: saved cases of the earlier decoder keep their meaning (an exhausted sequence yields amplitude 1).
		int ak = s.pick({3, 1, 1});
		double amp = ak == 0 ? 1.0 : (ak == 1 ? std::pow(10.0, -s.uniform(150, 300)) : std::pow(10.0, s.uniform(100, 290)));
		if(ak != 0)
		{
			std::function<double(double)> f0 = f;
			f = [=](double x) { return amp * f0(x); };
			c.cls(ak == 1 ? "find_root_tiny_values" : "find_root_huge_values");
		}
		VLOG(c, "Find_Root kind=" << kind << " on [" << a << "," << b << "] function scaled by " << amp);
		REQUEST(c, "Find_Root bracket", kind == 0, g_sink = forward ? Find_Root(f, a, b, 1e-8 * w) : Find_Root(f, b, a, 1e-8 * w));
	}
}

// ---- distributions, special functions, samplers --------------------------------------------------------------------------
VCLAUSE(statistics_special, 60, 30000, 600000, "parameter at the bound, or within 1e-12 relative on either side of it")
{
	Src& s = c.s;
	c.nt();
	int which = (int) s.range(0, 17);
	// a parameter relative to a bound b: at it, just below, just above, far on either side
	auto around = [&](double b, double scale) {
		switch(s.pick({2, 2, 2, 1, 1}))
		{
			case 0: return b;
			case 1: return std::nextafter(b, -INFINITY) - (s.coin() ? 0.0 : scale * 1e-12);
			case 2: return std::nextafter(b, INFINITY) + (s.coin() ? 0.0 : scale * 1e-12);
			case 3: return b - scale * std::pow(10.0, s.uniform(-6, 2));
			default: return b + scale * std::pow(10.0, s.uniform(-6, 2));
		}
	};
	switch(which)
	{
		case 0:
		case 1:
		{
			bool upper = s.coin();
			double p   = upper ? around(1.0, 1.0) : around(0.0, 1.0);
			bool ok	   = p >= 0.0 && p <= 1.0;
			unsigned n = (unsigned) s.range(0, 40), k = (unsigned) s.range(0, 40);
			if(k > n)
				k = n;
			VLOG(c, "Binomial n=" << n << " p=" << p << " k=" << k);
			if(which == 0)
				REQUEST(c, "PMF_Binomial(p)", ok, g_sink = PMF_Binomial(n, p, k));
			else
				REQUEST(c, "CDF_Binomial(p)", ok, g_sink = CDF_Binomial(n, p, k));
			break;
		}
		case 2:
		case 3:
		{
			double mu = around(0.0, 1.0);
			bool ok	  = mu >= 0.0;
			unsigned k = (unsigned) s.range(0, 30);
			VLOG(c, "Poisson mu=" << mu << " k=" << k);
			if(which == 2)
				REQUEST(c, "PMF_Poisson(mu)", ok, g_sink = PMF_Poisson(mu, k));
			else
				REQUEST(c, "CDF_Poisson(mu)", ok, g_sink = CDF_Poisson(mu, k));
			break;
		}
		case 4:
		{
			bool upper = s.coin();
			double cdf = upper ? around(1.0, 1.0) : around(0.0, 1.0);
			bool ok	   = cdf >= 0.0 && cdf <= 1.0;
			unsigned k = (unsigned) s.range(0, 20);
			if(ok && (cdf == 0.0 || cdf == 1.0) && k > 0)
				throw Discard();   // mu would be infinite / zero: degenerate but in range; not a guard case
			if(ok && k == 0 && cdf == 0.0)
				throw Discard();
			VLOG(c, "Inv_CDF_Poisson k=" << k << " cdf=" << cdf);
			REQUEST(c, "Inv_CDF_Poisson(cdf)", ok, g_sink = Inv_CDF_Poisson(k, cdf));
			break;
		}
		case 5:
		case 6:
		{
			double mean = around(0.0, 1.0);
			bool ok		= mean > 0.0;
			double x	= s.uniform(-1, 5);
			VLOG(c, "Exponential mean=" << mean << " x=" << x);
			if(which == 5)
				REQUEST(c, "PDF_Exponential(mean)", ok, g_sink = PDF_Exponential(x, mean));
			else
				REQUEST(c, "CDF_Exponential(mean)", ok, g_sink = CDF_Exponential(x, mean));
			break;
		}
		case 7:
		case 8:
		{
			double a = around(0.0, 1.0);
			bool ok	 = a > 0.0;
			double x = s.uniform(-1, 5);
			VLOG(c, "Maxwell_Boltzmann a=" << a << " x=" << x);
			if(which == 7)
				REQUEST(c, "PDF_Maxwell_Boltzmann(a)", ok, g_sink = PDF_Maxwell_Boltzmann(x, a));
			else
				REQUEST(c, "CDF_Maxwell_Boltzmann(a)", ok, g_sink = CDF_Maxwell_Boltzmann(x, a));
			break;
		}
		case 9:
		{
			unsigned n = s.pick({2, 2, 1, 1, 1}) == 0 ? 170u : (s.coin() ? 171u : (s.coin() ? 4294967295u : (unsigned) s.range(0, 400)));
			VLOG(c, "Factorial(" << n << ")");
			REQUEST(c, "Factorial", n <= 170, g_sink = Factorial(n));
			break;
		}
		case 10:
		{
			int n = (int) s.range(-2, 6), k = (int) s.range(-2, 6);
			VLOG(c, "Binomial_Coefficient(" << n << "," << k << ")");
			REQUEST(c, "Binomial_Coefficient", n >= 0 && k >= 0, g_sink = Binomial_Coefficient(n, k));
			break;
		}
		case 11:
		{
			double x = around(0.0, 1.0);
			VLOG(c, "GammaLn(" << x << ")");
			REQUEST(c, "GammaLn", x > 0.0, g_sink = GammaLn(x));
			break;
		}
		case 12:
		{
			bool badx = s.coin();
			double x  = badx ? around(0.0, 1.0) : s.uniform(0, 5);
			double a  = badx ? s.uniform(0.1, 5) : around(0.0, 1.0);
			bool ok	  = x >= 0.0 && a > 0.0;
			VLOG(c, "GammaQ/GammaP(" << x << "," << a << ")");
			if(s.coin())
				REQUEST(c, "GammaQ", ok, g_sink = GammaQ(x, a));
			else
				REQUEST(c, "GammaP", ok, g_sink = GammaP(x, a));
			break;
		}
		case 13:
		{
			double a = around(0.0, 1.0), p = s.uniform(0.01, 0.99);
			VLOG(c, "Inv_GammaP/Q(" << p << "," << a << ")");
			if(s.coin())
				REQUEST(c, "Inv_GammaP", a > 0.0, g_sink = Inv_GammaP(p, a));
			else
				REQUEST(c, "Inv_GammaQ", a > 0.0, g_sink = Inv_GammaQ(p, a));
			break;
		}
		case 14:
		{
			// |p|>1 is meaningless; p=+-1 is the (infinite) limit and left out; inside (-1,1) meaningful
			bool upper = s.coin();
			double p   = upper ? around(1.0, 1.0) : around(-1.0, 1.0);
			if(std::fabs(p) == 1.0 || std::fabs(std::fabs(p) - 1.0) < 1e-15)
				throw Discard();
			if(std::fabs(p) < 1 && 1 - std::fabs(p) < 1e-13)
				throw Discard();   // closer to +-1 than the statement's domain (1-1e-12)
			VLOG(c, "Inv_Erf(" << p << ")");
			REQUEST(c, "Inv_Erf", std::fabs(p) < 1.0, g_sink = Inv_Erf(p));
			break;
		}
		case 15:
		{
			unsigned d = (unsigned) s.range(1, 10);
			double x   = s.mixed(-5, 5);
			if(x == 0)
				x = 1.25;
			VLOG(c, "Round(" << x << "," << d << ")");
			REQUEST(c, "Round(digits)", d <= 7, g_sink = Round(x, d));
			break;
		}
		case 16:
		{
			int comp = (int) s.range(-1, 4);
			VLOG(c, "VSH component " << comp);
			if(s.coin())
				REQUEST(c, "VSH_Y_Component", comp >= 0 && comp <= 2, g_sink = VSH_Y_Component(comp, 3, 1, 4, 2).real());
			else
				REQUEST(c, "VSH_Psi_Component", comp >= 0 && comp <= 2, g_sink = VSH_Psi_Component(comp, 3, 1, 4, 2).real());
			break;
		}
		default:
		{
			std::mt19937 rng((unsigned) s.range(0, 1000));
			auto pdf = [](double x) { return std::exp(-0.5 * x * x); };
			auto pdf2 = [](double x, double y) { return std::exp(-0.5 * (x * x + y * y)); };
			bool two = s.coin();
			int dn	 = (int) s.range(0, 5);
			std::vector<double> dom;
			for(int i = 0; i < dn; i++)
				dom.push_back(-2.0 + i * 4.0 / std::max(dn - 1, 1) + (i % 2 ? 0.5 : 0.0));
			if(dn == 2)
				dom = {-2.0, 2.0};
			if(dn == 4)
				dom = {-2.0, 2.0, -1.0, 3.0};
			VLOG(c, "Sample_Metropolis" << (two ? "_2D" : "") << " with a domain vector of size " << dn);
			if(two)
				REQUEST(c, "Sample_Metropolis_2D(domain)", dn == 0 || dn == 4, auto v = Sample_Metropolis_2D(rng, pdf2, {1.0, 1.0}, 5, 2, 3, dom); g_sink = (double) v.size());
			else
				REQUEST(c, "Sample_Metropolis(domain)", dn == 0 || dn == 2, auto v = Sample_Metropolis(rng, pdf, 1.0, 5, 2, 3, dom); g_sink = (double) v.size());
			break;
		}
	}
}

// ---- degenerate sizes at guarded entry points ------------------------------------------------------------------------------------
// Size 0 (and 1 where 2 is the minimum) on the entry points that carry a size guard. Whether "the transpose of no lists" is meaningful is a
// matter of taste, so either outcome of the statement is accepted - a clean diagnostic exit or a normal return - but nothing in between:
// no read outside the object (the sanitizers and the signal handler decide that), no exit with success status, no silent exit.
#define EITHER(c, name, ...)                                                                                          \
	do                                                                                                               \
	{                                                                                                                \
		::vf::GuardResult _gr = ::vf::guarded([&]() { __VA_ARGS__; });                                               \
		(c).cls(_gr.exited ? name "/diagnosed" : name "/returned");                                                  \
		if(_gr.exited && _gr.code == 0)                                                                              \
			VFAIL("EXIT WITH SUCCESS STATUS in " << name << " at " << __FILE__ << ":" << __LINE__);                   \
		if(_gr.exited && !_gr.output)                                                                                \
			VFAIL("EXIT WITHOUT DIAGNOSTIC in " << name << " at " << __FILE__ << ":" << __LINE__);                    \
	} while(0)

VCLAUSE(empty_objects, 20, 6000, 120000, "the object or list has size zero")
{
	Src& s = c.s;
	c.nt();
	int which = (int) s.range(0, 11);
	int n	  = s.coin() ? 0 : (int) s.range(0, 2);
	VLOG(c, "degenerate request " << which << " with size " << n);
	switch(which)
	{
		case 0:
		{
			std::vector<std::vector<double>> l((size_t) n, std::vector<double>((size_t) s.range(0, 2), 1.5));
			std::vector<std::vector<double>> t;
			::vf::GuardResult g = ::vf::guarded([&]() { t = Transpose_Lists(l); });
			c.cls(g.exited ? "Transpose_Lists/diagnosed" : "Transpose_Lists/returned");
			VCHECK(!g.exited || (g.code != 0 && g.output), "Transpose_Lists of " << n << " lists: exit without failure status or diagnostic");
			if(!g.exited && n > 0)
				VCHECK(t.size() == l[0].size(), "Transpose_Lists of " << n << " lists of " << l[0].size() << " returned " << t.size() << " lists");
			if(!g.exited && n == 0)
				VCHECK(t.empty(), "Transpose_Lists of no lists returned " << t.size() << " lists");
			break;
		}
		case 1:
		{
			std::vector<int> v((size_t) n, 7), r;
			int i1 = (int) s.range(-2, 3);
			unsigned i2 = (unsigned) s.range(0, 4);
			::vf::GuardResult g = ::vf::guarded([&]() { r = Sub_List(v, i1, i2); });
			c.cls(g.exited ? "Sub_List/diagnosed" : "Sub_List/returned");
			VCHECK(!g.exited || (g.code != 0 && g.output), "Sub_List: exit without failure status or diagnostic");
			int lo = std::max(i1, 0), hi = std::min((int) i2, n - 1);
			if(!g.exited)
				VCHECK((int) r.size() == std::max(0, hi - lo + 1), "Sub_List(size " << n << "," << i1 << "," << i2 << ") returned " << r.size() << " elements");
			break;
		}
		case 2:
		{
			std::vector<std::vector<int>> l((size_t) n);
			std::vector<int> f;
			VMUST_RETURN("Flatten_List / List_Contains / Find_Indices / Combine_Lists of empty lists", f = Flatten_List(l); g_sink = List_Contains(f, 3) + (double) Find_Indices(f, 3).size() + (double) Combine_Lists(f, f).size());
			VCHECK(f.empty() && g_sink == 0, "empty lists: Flatten/Contains/Find/Combine gave " << f.size() << "," << g_sink);
			break;
		}
		case 3:
		{
			std::vector<double> pred((size_t) n, 2.0), bkg((size_t) n, 0.5);
			std::vector<unsigned long int> obs((size_t) n, 1);
			EITHER(c, "Likelihood_Poisson_Binned(size 0..2)", g_sink = Likelihood_Poisson_Binned(pred, obs, bkg) + Log_Likelihood_Poisson_Binned(pred, obs));
			break;
		}
		case 4:
		{
			Vector v((unsigned) n), w((unsigned) n);
			EITHER(c, "Vector(size 0..2) arithmetic", Vector u = v + w; u -= w; g_sink = u.Dot(w) + u.Norm() + (double) (u == w) + (double) u.Size());
			if(n == 0)
				VMUST_EXIT("index 0 of an empty Vector", g_sink = v[0]);
			break;
		}
		case 5:
		{
			int m = (int) s.range(0, 2);
			Matrix A((unsigned) n, (unsigned) m), B((unsigned) n, (unsigned) m);
			EITHER(c, "Matrix(0..2 x 0..2) arithmetic", Matrix C = A + B; C -= B; Matrix T = C.Transpose(); g_sink = (double) T.Rows() + (double) (C == B) + (double) C.Square());
			if(n == 0)
				VMUST_EXIT("row 0 of a Matrix without rows", g_sink = (double) A[0].size());
			break;
		}
		case 6:
		{
			Matrix A((unsigned) n, (unsigned) n);
			EITHER(c, "Determinant/Trace/Invertible of a 0..2 square zero matrix", g_sink = A.Trace() + A.Determinant() + (double) A.Invertible());
			break;
		}
		case 7:
		{
			int nx = (int) s.range(0, 2), ny = (int) s.range(0, 2);
			std::vector<double> x((size_t) nx), y((size_t) ny);
			for(int i = 0; i < nx; i++)
				x[(size_t) i] = i;
			for(int j = 0; j < ny; j++)
				y[(size_t) j] = j;
			std::vector<std::vector<double>> f((size_t) nx, std::vector<double>((size_t) ny, 1.0));
			if(nx >= 2 && ny >= 2)
				VMUST_RETURN("Interpolation_2D on a 2x2 grid", Interpolation_2D I(x, y, f); g_sink = I(0.5, 0.5));
			else
				REQUEST(c, "Interpolation_2D(grid with fewer than two points on an axis)", false, Interpolation_2D I(x, y, f); g_sink = I(0.0, 0.0));
			break;
		}
		case 8:
		{
			std::vector<std::vector<double>> tab((size_t) n, std::vector<double> {0.0, 1.0});
			for(int i = 0; i < n; i++)
				tab[(size_t) i][0] = i;
			REQUEST(c, "Interpolation(table of fewer than two points)", n >= 2, Interpolation I(tab); g_sink = I(0.0));
			break;
		}
		case 9:
		{
			std::vector<double> l((size_t) n);
			for(int i = 0; i < n; i++)
				l[(size_t) i] = i;
			EITHER(c, "Locate_Closest_Location(list of 0..2)", g_sink = Locate_Closest_Location(l, 0.3));
			break;
		}
		case 10:
		{
			std::vector<std::vector<double>> rule;
			EITHER(c, "Compute_Gauss_Legendre_Roots_and_Weights(0..2)", rule = libphysica::Compute_Gauss_Legendre_Roots_and_Weights((unsigned) n, 0.0, 1.0); g_sink = (double) rule.size());
			std::vector<double> vals((size_t) n, 1.0);
			std::vector<std::vector<double>> r2((size_t) n, std::vector<double> {0.5, 1.0});
			EITHER(c, "Integrate_Gauss_Legendre(values, rule) of size 0..2", g_sink = libphysica::Integrate_Gauss_Legendre(vals, r2));
			break;
		}
		default:
		{
			std::vector<std::vector<double>> tb((size_t) n, std::vector<double>((size_t) s.range(0, 2), 4.0));
			std::vector<double> li((size_t) n, 4.0);
			EITHER(c, "In_Units(list/table of size 0..2)", auto a = natural_units::In_Units(li, 2.0); auto b = natural_units::In_Units(tb, 2.0); g_sink = (double) a.size() + (double) b.size());
			break;
		}
	}
}

// ---- lists, units, files -----------------------------------------------------------------------------------------------
VCLAUSE(lists_utilities, 80, 20000, 400000, "lengths differ by one, or the upper index equals size-1/size/size+1")
{
	Src& s = c.s;
	c.nt();
	int which = (int) s.range(0, 8);
	switch(which)
	{
		case 0:
		{
			// Sub_List: inclusive upper index on both sides of size; never an out-of-bounds read, result = elements i1..min(i2,size-1)
			int n = (int) s.range(1, 10);
			std::vector<int> v(n);
			for(int i = 0; i < n; i++)
				v[i] = 10 + i;
			int i1		= (int) s.range(-2, n - 1);
			unsigned i2 = (unsigned) std::max<long>(std::max(i1, 0), s.pick({1, 1, 1, 1}) == 0 ? n - 1 : (s.coin() ? n : (s.coin() ? n + 1 : s.range(0, n + 3))));
			VLOG(c, "Sub_List(size " << n << ", " << i1 << ", " << i2 << ")");
			std::vector<int> r;
			c.cls("Sub_List/accepted");
			VMUST_RETURN("Sub_List", r = Sub_List(v, i1, i2));
			int lo = std::max(i1, 0), hi = (int) std::min<unsigned>(i2, (unsigned) n - 1);
			VCHECK((int) r.size() == hi - lo + 1, "Sub_List size " << r.size() << " expected " << hi - lo + 1);
			for(int i = lo; i <= hi; i++)
				VCHECK(r[(size_t) (i - lo)] == v[(size_t) i], "Sub_List element " << i);
			break;
		}
		case 1:
		{
			int n = (int) s.range(1, 5), m = (int) s.range(1, 5);
			std::vector<std::vector<double>> l(n, std::vector<double>(m, 1.0));
			bool ragged = s.coin() && n >= 2;
			if(ragged)
			{
				size_t k = (size_t) s.range(1, n - 1);
				if(s.coin())
					l[k].push_back(2.0);
				else
					l[k].pop_back();
			}
			VLOG(c, "Transpose_Lists " << n << " lists of " << m << " ragged=" << ragged);
			REQUEST(c, "Transpose_Lists", !ragged, auto t = Transpose_Lists(l); g_sink = (double) t.size());
			break;
		}
		case 2:
		{
			int n = (int) s.range(1, 6);
			int k1 = s.pick({2, 1, 1}) == 0 ? n : (s.coin() ? n + 1 : n - 1), k2 = s.pick({2, 1, 1, 1}) == 0 ? n : (s.coin() ? n + 1 : (s.coin() ? n - 1 : 0));
			std::vector<double> pred((size_t) n, 2.5), bkg((size_t) k2, 0.5);
			std::vector<unsigned long int> obs((size_t) k1, 3);
			bool ok = (k1 == n) && (k2 == n || k2 == 0);
			VLOG(c, "Likelihood_Poisson_Binned sizes " << n << "," << k1 << "," << k2);
			if(s.coin())
				REQUEST(c, "Log_Likelihood_Poisson_Binned", ok, g_sink = Log_Likelihood_Poisson_Binned(pred, obs, bkg));
			else
				REQUEST(c, "Likelihood_Poisson_Binned", ok, g_sink = Likelihood_Poisson_Binned(pred, obs, bkg));
			break;
		}
		case 3:
		{
			int rows = (int) s.range(1, 4), cols = (int) s.range(1, 4);
			int k	 = s.pick({2, 1, 1}) == 0 ? cols : (s.coin() ? cols + 1 : cols - 1);
			std::vector<std::vector<double>> q(rows, std::vector<double>(cols, 6.0));
			std::vector<double> dims((size_t) k, 2.0);
			VLOG(c, "In_Units(table " << rows << "x" << cols << ", dims " << k << ")");
			REQUEST(c, "In_Units(table,dimensions)", k == cols, auto r = natural_units::In_Units(q, dims); g_sink = (double) r.size());
			break;
		}
		case 4:
		{
			int n = (int) s.range(1, 8);
			std::vector<double> l((size_t) n);
			for(int i = 0; i < n; i++)
				l[(size_t) i] = i * 0.5;
			bool unsorted = s.coin() && n >= 2;
			if(unsorted)
				std::swap(l[0], l[(size_t) n - 1]);
			VLOG(c, "Locate_Closest_Location unsorted=" << unsorted);
			REQUEST(c, "Locate_Closest_Location", !unsorted, g_sink = Locate_Closest_Location(l, 0.7));
			break;
		}
		case 5:
		case 6:
		{
			// Export_Table / Import_Table with matching / mismatching unit vectors; Import of a missing file
			char tmpl[] = "/dev/shm/vf_c10_XXXXXX";
			int fd		= mkstemp(tmpl);
			if(fd < 0)
				throw Discard();
			close(fd);
			std::string path = tmpl;
			int rows = (int) s.range(1, 4), cols = (int) s.range(1, 4);
			std::vector<std::vector<double>> t(rows, std::vector<double>(cols, 1.5));
			int k = s.pick({2, 1, 1, 1}) == 0 ? cols : (s.coin() ? cols + 1 : (s.coin() ? cols - 1 : 0));
			std::vector<double> dims((size_t) k, 2.0);
			bool ok = (k == cols || k == 0);
			VLOG(c, (which == 5 ? "Export_Table" : "Import_Table") << " " << rows << "x" << cols << " with " << k << " unit factors");
			GuardResult gr;
			std::string failmsg;
			try
			{
				if(which == 5)
					REQUEST(c, "Export_Table(dimensions)", ok, Export_Table(path, t, dims));
				else
				{
					VMUST_RETURN("Export_Table", Export_Table(path, t));
					bool missing = s.chance(0.25);
					if(missing)
					{
						unlink(path.c_str());
						REQUEST(c, "Import_Table(missing file)", false, auto r = Import_Table(path, {}); g_sink = (double) r.size());
						REQUEST(c, "Import_List(missing file)", false, auto r = Import_List(path); g_sink = (double) r.size());
					}
					else
						REQUEST(c, "Import_Table(dimensions)", ok, auto r = Import_Table(path, dims); g_sink = (double) r.size());
				}
			}
			catch(...)
			{
				unlink(path.c_str());
				throw;
			}
			unlink(path.c_str());
			break;
		}
		case 7:
		{
			bool cond = s.coin();
			VLOG(c, "Check_For_Error(" << cond << ")");
			REQUEST(c, "Check_For_Error", !cond, Check_For_Error(cond, "C10 harness", "requested failure"));
			break;
		}
		default:
		{
			// In_Units on Vector/Matrix/list with any sizes is always meaningful
			int n = (int) s.range(1, 5);
			Vector v((unsigned) n, 4.0);
			Matrix M((unsigned) n, (unsigned) s.range(1, 4), 4.0);
			c.cls("In_Units(Vector/Matrix)/accepted");
			VMUST_RETURN("In_Units", Vector r = natural_units::In_Units(v, 2.0); Matrix R = natural_units::In_Units(M, 2.0, true, 3); g_sink = r[0] + R[0][0]);
			VCHECK(g_sink == 4.0, "In_Units");
			break;
		}
	}
}

// ---- the same requests in a real child process: true exit status and diagnostic -----------------------------------------
VCLAUSE(real_process, 20, 300, 6000, "the request is on the rejected side (a real process exit is observed)")
{
	Src& s	  = c.s;
	int which = (int) s.range(0, 7);
	bool ok	  = s.chance(0.35);
	if(!ok)
		c.nt();
	std::function<std::vector<double>()> req;
	const char* name = "";
	switch(which)
	{
		case 0:
			name = "Vector index";
			req	 = [=]() { Vector v(3, 1.0); return std::vector<double> {v[ok ? 2u : 3u]}; };
			break;
		case 1:
			name = "Matrix sum";
			req	 = [=]() { Matrix a(2, 3, 1.0), b(ok ? 2 : 3, ok ? 3 : 2, 1.0); Matrix r = a + b; return std::vector<double> {r[0][0]}; };
			break;
		case 2:
			name = "Interpolation domain";
			req	 = [=]() { Interpolation f({0, 1, 2, 12}, {0, 1, 4, 2}); return std::vector<double> {f(ok ? 12.09 : 12.11)}; };
			break;
		case 3:
			name = "Interpolation table";
			req	 = [=]() { std::vector<double> x = {0, 1, ok ? 2.0 : 1.0}; Interpolation f(x, {0, 1, 4}); return std::vector<double> {f(0.5)}; };
			break;
		case 4:
			name = "Find_Root bracket";
			req	 = [=]() { return std::vector<double> {Find_Root([=](double x) { return ok ? x - 0.5 : x * x + 1; }, 0.0, 1.0, 1e-8)}; };
			break;
		case 5:
			name = "Integrate method";
			req	 = [=]() { return std::vector<double> {Integrate([](double x) { return x; }, 0.0, 1.0, ok ? "Tanh-Sinh" : "Tanh_Sinh")}; };
			break;
		case 6:
			name = "Factorial";
			req	 = [=]() { return std::vector<double> {Factorial(ok ? 170 : 171)}; };
			break;
		default:
			name = "PDF_Exponential";
			req	 = [=]() { return std::vector<double> {PDF_Exponential(1.0, ok ? 1e-300 : 0.0)}; };
			break;
	}
	VLOG(c, name << " in a real child process, meaningful=" << ok);
	c.cls(ok ? "child/accepted" : "child/rejected");
	std::vector<double> out;
	int st = 0;
	GuardResult gr = guarded([&]() {});
	(void) gr;
	long before = 0;
	{
		// measure the diagnostic written by the child (it inherits the captured stdout/stderr)
		GuardResult g0 = guarded([&]() { bool r = run_in_child(req, out, 30.0, &st); (void) r; });
		before		   = g0.output ? 1 : 0;
	}
	bool exited = WIFEXITED(st), signaled = WIFSIGNALED(st);
	int code	= exited ? WEXITSTATUS(st) : -1;
	VCHECK(!signaled, name << ": child killed by signal " << WTERMSIG(st));
	VCHECK(code != 99, name << ": sanitizer report in the child process");
	if(ok)
		VCHECK(exited && code == 0 && out.size() == 1 && std::isfinite(out[0]), name << ": meaningful request did not return normally in a real process (status " << code << ")");
	else
	{
		VCHECK(exited && code != 0, name << ": meaningless request did not terminate the process with a failure status (status " << code << ", returned " << out.size() << " values)");
		VCHECK(before == 1, name << ": process terminated without a diagnostic");
	}
}
