// C05 Inverse and Determinant are correct for every square matrix
#include "../engine/harness.hpp"
#include "../engine/lacommon.hpp"

#include "libphysica/Linear_Algebra.hpp"

using namespace vf;
using libphysica::Matrix;
const char* const vf::kPropertyId = "C05";

namespace
{
// exact-in-long-double Laplace determinant (used for small-integer matrices, where every intermediate is an integer < 2^63)
long double laplace(const LRows& a)
{
	size_t n = a.size();
	if(n == 1)
		return a[0][0];
	if(n == 2)
		return a[0][0] * a[1][1] - a[0][1] * a[1][0];
	long double det = 0;
	for(size_t j = 0; j < n; j++)
	{
		if(a[0][j] == 0)
			continue;
		LRows sub(n - 1, std::vector<long double>(n - 1));
		for(size_t r = 1; r < n; r++)
			for(size_t cc = 0, k = 0; cc < n; cc++)
				if(cc != j)
					sub[r - 1][k++] = a[r][cc];
		det += ((j % 2) ? -1.0L : 1.0L) * a[0][j] * laplace(sub);
	}
	return det;
}
// product over rows of the 1-norm: bound of the permanent of |A|, the natural rounding scale of a determinant
long double row_scale(const LRows& a)
{
	long double p = 1;
	for(auto& r : a)
	{
		long double s = 0;
		for(auto x : r)
			s += fabsl(x);
		p *= s;
	}
	return p;
}
struct Gen
{
	Rows a;
	int n;
	bool integer = false;	  // all entries small integers
	bool structured = false;   // permutation / zero or tiny diagonal / triangular: pivoting structure matters
	bool exactly_singular = false;	// singular over the reals by construction (also for non-integer entries)
	bool zero_line = false;			// ... because a whole row or column is zero (every expansion and every elimination sees an exact zero)
	std::string kind;
};
Gen gen_square(Ctx& c, int nmax, int force_n = 0)
{
	Src& s = c.s;
	Gen g;
	int n = force_n > 0 ? force_n : (int) s.range(1, nmax);
	g.n	  = n;
	int kind = s.pick({3, 3, 2, 3, 2, 1, 2, 3, 1, 1});
	Rows a(n, std::vector<double>(n, 0.0));
	switch(kind)
	{
		case 0:	  // dense small integers
			a		  = gen_entries(s, n, n, 0);
			g.integer = true;
			g.kind	  = "dense_int";
			break;
		case 1:	  // dense mixed magnitude 10^[-3,3]
			for(auto& r : a)
				for(auto& x : r)
					x = s.chance(0.1) ? 0.0 : s.sign() * std::pow(10.0, s.uniform(-3, 3));
			g.kind = "dense_mixed";
			break;
		case 2:
		{	// (signed, scaled) permutation
			std::vector<int> p(n);
			for(int i = 0; i < n; i++)
				p[i] = i;
			for(int i = n - 1; i > 0; i--)
				std::swap(p[i], p[(int) s.range(0, i)]);
			bool scaled = s.coin();
			for(int i = 0; i < n; i++)
				a[i][p[i]] = s.sign() * (scaled ? (double) s.range(1, 9) : 1.0);
			g.integer	 = true;
			g.structured = true;
			g.kind		 = "permutation";
			break;
		}
		case 3:
		{	// well-conditioned dense matrix whose diagonal (leading minors) is zero or tiny in places
			bool ints = s.coin();
			for(auto& r : a)
				for(auto& x : r)
					x = ints ? s.small_int(9) : s.uniform(-1, 1);
			for(int i = 0; i < n; i++)
				if(s.chance(0.5))
					a[i][i] = s.coin() ? 0.0 : s.sign() * std::pow(10.0, s.uniform(-17, -9));
			// also make a whole leading block singular sometimes
			if(n >= 3 && s.chance(0.3))
			{
				a[1][0] = a[0][0];
				a[1][1] = a[0][1];
			}
			g.structured = true;
			g.kind		 = "zero_or_tiny_pivots";
			break;
		}
		case 4:
		{	// triangular or diagonal
			bool upper = s.coin(), diag = s.chance(0.3), ints = s.coin();
			for(int i = 0; i < n; i++)
				for(int j = 0; j < n; j++)
					if(i == j || (!diag && ((upper && j > i) || (!upper && j < i))))
						a[i][j] = ints ? s.small_int(9) : s.sign() * std::pow(10.0, s.uniform(-2, 2));
			g.integer	 = ints;
			g.structured = true;
			g.kind		 = diag ? "diagonal" : (upper ? "upper_triangular" : "lower_triangular");
			break;
		}
		case 5:
		{	// symmetric
			bool ints = s.coin();
			for(int i = 0; i < n; i++)
				for(int j = i; j < n; j++)
					a[i][j] = a[j][i] = ints ? s.small_int(9) : s.mixed(-3, 3);
			g.integer = ints;
			g.kind	  = "symmetric";
			break;
		}
		case 6:
		{	// exactly singular small-integer matrix: a row is a combination of others / duplicated / zero
			a = gen_entries(s, n, n, 0);
			if(n == 1)
				a[0][0] = 0;
			else
			{
				int t = (int) s.range(0, n - 1), u = (int) s.range(0, n - 2);
				if(u >= t)
					u++;
				int mode = s.pick({1, 1, 1});
				for(int j = 0; j < n; j++)
				{
					if(mode == 0)
						a[t][j] = a[u][j];
					else if(mode == 1)
						a[t][j] = 0;
					else
					{
						int v	= (u + 1) % n == t ? (u + 2) % n : (u + 1) % n;
						a[t][j] = (n >= 3 && v != t && v != u) ? 2 * a[u][j] - a[v][j] : -a[u][j];
					}
				}
				if(s.coin())
				{	// same for columns
					Rows b(n, std::vector<double>(n));
					for(int i = 0; i < n; i++)
						for(int j = 0; j < n; j++)
							b[j][i] = a[i][j];
					a = b;
				}
			}
			g.integer	 = true;
			g.structured = true;
			g.kind		 = "rank_deficient";
			break;
		}
		case 8:
		{	// non-integer entries, singular over the reals: a duplicated or zero row (column); every elimination or expansion meets it
			for(auto& r : a)
				for(auto& x : r)
					x = s.uniform(-1, 1);
			if(n == 1)
			{
				a[0][0]		= 0;
				g.zero_line = true;
			}
			else
			{
				int t = (int) s.range(0, n - 1), u = (int) s.range(0, n - 2);
				if(u >= t)
					u++;
				bool zero = s.chance(0.4);
				g.zero_line = zero;
				for(int j = 0; j < n; j++)
					a[t][j] = zero ? 0.0 : a[u][j];
				if(s.coin())
				{
					Rows b(n, std::vector<double>(n));
					for(int i = 0; i < n; i++)
						for(int j = 0; j < n; j++)
							b[j][i] = a[i][j];
					a = b;
				}
			}
			g.structured	   = true;
			g.exactly_singular = true;
			g.kind			   = "rank_deficient_real";
			break;
		}
		case 9:
		{	// leading block nearly singular by cancellation: row 1 = row 0 * (1 + tiny) in the first k columns, generic elsewhere
			for(auto& r : a)
				for(auto& x : r)
					x = s.uniform(-1, 1);
			if(n >= 3)
			{
				int k		= (int) s.range(2, n - 1);
				double tiny = std::pow(10.0, s.uniform(-15, -8));
				for(int j = 0; j < k; j++)
					a[1][j] = a[0][j] * (1 + tiny);
			}
			g.structured = true;
			g.kind		 = "leading_block_cancellation";
			break;
		}
		default:
		{	// graded condition number: Q1 * diag(sigma) * Q2, cond up to 1e8, overall scale 10^[-3,3]
			LRows q1 = gen_orthogonal(s, n, 2 * n), q2 = gen_orthogonal(s, n, 2 * n);
			double u = s.uniform(0, 8), sc = std::pow(10.0, s.uniform(-3, 3));
			LRows sg = l_identity(n);
			for(int i = 0; i < n; i++)
				sg[i][i] = sc * powl(10.0L, -(long double) u * (n == 1 ? 0 : (long double) i / (n - 1)));
			a	   = to_d(l_mul(l_mul(q1, sg), q2));
			g.kind = "graded_condition";
			break;
		}
	}
	// overall magnitude: any scale at which the determinant itself stays inside the double range (|log10| <= 250/n per entry)
	if(!g.integer && s.chance(0.15))
	{
		double k = s.uniform(-250.0 / n, 250.0 / n), f = std::pow(10.0, k);
		for(auto& r : a)
			for(auto& x : r)
				x *= f;
		g.kind += "_rescaled";
	}
	g.a = a;
	return g;
}
}	// namespace

VCLAUSE(determinant, 300, 12000, 300000, "n >= 3 and the matrix has pivoting structure (permutation, zero/tiny diagonal, triangular, rank deficient) or graded condition")
{
	Gen g	= gen_square(c, c.s.chance(0.85) ? 6 : 7);
	int n	= g.n;
	LRows L = to_l(g.a);
	c.cls(g.kind.c_str());
	if(n >= 3 && (g.structured || g.kind == "graded_condition"))
		c.nt();
	VLOG(c, "A(" << n << "x" << n << ") kind=" << g.kind << " = " << show(g.a));
	Matrix A(g.a);
	double det = 0, detT = 0;
	bool inv = false;
	VMUST_RETURN("Determinant/Invertible of a square matrix", det = A.Determinant(); detT = A.Transpose().Determinant(); inv = A.Invertible());
	long double scale = std::min(row_scale(L), row_scale(l_transpose(L)));
	long double ref	  = g.integer ? laplace(L) : l_det(L);
	double tol		  = (double) (8.0L * n * EPS * scale);
	// (integer matrices: the reference is the exact expansion; the statement promises agreement to rounding, so an elimination-based
	// determinant that returns 5.999999999999999 is right; exactness is counted, not demanded)
	VCLOSE(c, "det_vs_LU", det, (double) ref, tol, (g.integer ? "Determinant vs exact integer expansion" : "Determinant vs pivoted LU in long double"));
	VCLOSE(c, "det_transpose", detT, det, 2 * tol, "det(A^T) vs det(A)");
	if(g.integer && det == (double) ref)
		c.cls("integer_determinant_exact");
	if(g.exactly_singular)
		c.cls("singular_over_the_reals");
	VCHECK(inv == (det != 0.0), "Invertible()=" << inv << " but Determinant()=" << det);
	// triangular: product of the diagonal
	if(g.kind == "upper_triangular" || g.kind == "lower_triangular" || g.kind == "diagonal")
	{
		long double p = 1;
		for(int i = 0; i < n; i++)
			p *= L[i][i];
		VCLOSE(c, "det_triangular", det, (double) p, 4.0 * n * EPS * (double) fabsl(p), "triangular matrix: product of the diagonal");
	}
	// row swap negates
	if(n >= 2)
	{
		int r1 = (int) c.s.range(0, n - 1), r2 = (int) c.s.range(0, n - 2);
		if(r2 >= r1)
			r2++;
		Rows b = g.a;
		std::swap(b[r1], b[r2]);
		double dets = 0;
		VMUST_RETURN("Determinant after a row swap", dets = Matrix(b).Determinant());
		VCLOSE(c, "det_rowswap", dets, -det, 2 * tol, "row swap (" << r1 << "," << r2 << ") must negate the determinant");
	}
	// multiplicative
	{
		Gen h = gen_square(c, n, n);
		{
			LRows LB = to_l(h.a);
			Matrix B(h.a);
			double detab = 0, detb = 0;
			VMUST_RETURN("Determinant of a product", detab = (A * B).Determinant(); detb = B.Determinant());
			LRows absab(n, std::vector<long double>(n, 0));
			for(int i = 0; i < n; i++)
				for(int j = 0; j < n; j++)
					for(int k = 0; k < n; k++)
						absab[i][j] += fabsl(L[i][k] * LB[k][j]);
			long double s2 = row_scale(absab);
			if(!(s2 < 1e290L) || !(s2 > 1e-250L))
				throw Discard();   // generator: the product of two rescaled matrices leaves the range in which its determinant is a (normal) double
			long double refp = (g.integer ? laplace(L) : l_det(L)) * (h.integer ? laplace(LB) : l_det(LB));
			VCLOSE(c, "det_multiplicative", detab, (double) refp, (double) (16.0L * n * n * EPS * s2), "det(A*B) vs det(A)*det(B), B kind=" << h.kind << " B=" << show(h.a));
			(void) detb;
		}
	}
}

VCLAUSE(inverse, 300, 12000, 300000, "matrix has a zero or tiny entry on the diagonal of the elimination (permutation / zero-or-tiny pivots) or condition number >= 1e4")
{
	Gen g	= gen_square(c, c.s.chance(0.85) ? 6 : 7);
	int n	= g.n;
	LRows L = to_l(g.a);
	c.cls(g.kind.c_str());
	VLOG(c, "A(" << n << "x" << n << ") kind=" << g.kind << " = " << show(g.a));
	Matrix A(g.a);
	LRows Xref;
	bool ref_ok		 = l_inverse(L, Xref);
	long double cond = ref_ok ? l_frob(L) * l_frob(Xref) : 1e300L;
	// exactly singular integer matrices: must stop with a diagnostic
	// (a duplicated non-integer row or column is singular over the reals, but no floating-point elimination is bound to meet an exact zero:
	// (x/y)*y != x; neither side of the statement applies. A zero row or column is seen by every algorithm.)
	if(g.exactly_singular && !g.zero_line)
		throw Discard();
	if((g.integer && laplace(L) == 0.0L) || g.zero_line)
	{
		c.cls("singular");
		c.nt();
		VMUST_EXIT("Inverse of a singular matrix", Matrix X = A.Inverse(); (void) X);
		return;
	}
	if(!ref_ok || cond > 1e9L)
		throw Discard();   // numerically singular non-integer matrix: neither side of the statement applies
	if(g.kind == "permutation" || g.kind == "zero_or_tiny_pivots" || cond >= 1e4L)
		c.nt();
	c.cls(cond >= 1e4L ? "cond_ge_1e4" : "cond_lt_1e4");
	Matrix X;
	VMUST_RETURN("Inverse of an invertible matrix (cond=" << (double) cond << ")", X = A.Inverse());
	VCHECK((int) X.Rows() == n && (int) X.Columns() == n, "inverse has shape " << X.Rows() << "x" << X.Columns());
	LRows LX(n, std::vector<long double>(n));
	long double diff = 0;
	for(int i = 0; i < n; i++)
		for(int j = 0; j < n; j++)
		{
			VCHECK(std::isfinite(X[i][j]), "inverse entry (" << i << "," << j << ") = " << X[i][j]);
			LX[i][j] = X[i][j];
			diff += (LX[i][j] - Xref[i][j]) * (LX[i][j] - Xref[i][j]);
		}
	diff			 = sqrtl(diff);
	long double tolr = 16.0L * n * cond * EPS;	 // relative accuracy: small multiple of n * cond * eps
	VCLOSE(c, "inverse_vs_reference", (double) (diff / l_frob(Xref)), 0.0, (double) tolr, "||X - A^-1||_F/||A^-1||_F, cond_F=" << (double) cond);
	LRows XM = l_mul(LX, L), MX = l_mul(L, LX), I = l_identity(n);
	long double r1 = 0, r2 = 0;
	for(int i = 0; i < n; i++)
		for(int j = 0; j < n; j++)
		{
			r1 += (XM[i][j] - I[i][j]) * (XM[i][j] - I[i][j]);
			r2 += (MX[i][j] - I[i][j]) * (MX[i][j] - I[i][j]);
		}
	VCLOSE(c, "XM_minus_I", (double) sqrtl(r1), 0.0, (double) tolr, "||X*M - I||_F, cond_F=" << (double) cond);
	VCLOSE(c, "MX_minus_I", (double) sqrtl(r2), 0.0, (double) (tolr * cond), "||M*X - I||_F, cond_F=" << (double) cond);
}

// ---- histories: the determinant (and with it Invertible and Inverse) belongs to the matrix as it is NOW ---------------------------------
// One Matrix object is mutated through every mutator the class offers between queries; a model (the plain table of entries) follows the same
// operations, and every query is compared with the reference evaluated on the model. Nothing a query computed may survive a mutation.
VCLAUSE(history, 400, 6000, 120000, "at least two mutations of different kinds lie between two queries on one object")
{
	Src& s = c.s;
	int n  = (int) s.range(2, 5);
	Rows a((size_t) n, std::vector<double>((size_t) n));
	for(auto& r : a)
		for(auto& x : r)
			x = s.small_int(4);
	Matrix M(a);
	int nops = (int) s.range(3, 14), kinds_since_query = 0, last_kind = -1;
	bool nt = false;
	VLOG(c, "start " << n << "x" << n << " " << show(a));
	for(int op = 0; op < nops; op++)
	{
		int kind = s.pick({5, 3, 3, 3, 1, 1, 1, 1});
		if(kind == 0)
		{
			// query: Determinant, Invertible, and (when invertible) Inverse
			LRows L = to_l(a);
			long double ref = laplace(L);
			double det = 0;
			bool inv = false;
			VMUST_RETURN("Determinant/Invertible after a history of mutations", det = M.Determinant(); inv = M.Invertible());
			long double scale = std::min(row_scale(L), row_scale(l_transpose(L)));
			VCLOSE(c, "determinant_after_history", det, (double) ref, (double) (8.0L * n * EPS * scale), "op " << op << ": Determinant of the current matrix " << show(a));
			VCHECK(inv == (ref != 0.0L), "op " << op << ": Invertible()=" << inv << " for the current matrix " << show(a) << " with determinant " << (double) ref);
			if(ref != 0.0L)
			{
				Matrix X;
				VMUST_RETURN("Inverse after a history of mutations", X = M.Inverse());
				long double worst = 0;
				for(int i = 0; i < n; i++)
					for(int j = 0; j < n; j++)
					{
						long double e = 0;
						for(int k = 0; k < n; k++)
							e += (long double) X[i][k] * a[(size_t) k][(size_t) j];
						worst = std::max(worst, fabsl(e - (i == j ? 1 : 0)));
					}
				VCLOSE(c, "inverse_after_history", (double) worst, 0.0, 1e-9, "op " << op << ": X*M-I for the current matrix " << show(a));
			}
			else
				VMUST_EXIT("Inverse of the current (singular) matrix", Matrix X = M.Inverse(); (void) X);
			if(kinds_since_query >= 2)
				nt = true;
			kinds_since_query = 0;
			last_kind		  = -1;
			continue;
		}
		Rows b((size_t) n, std::vector<double>((size_t) n));
		for(auto& r : b)
			for(auto& x : r)
				x = s.chance(0.6) ? 0.0 : s.small_int(3);
		switch(kind)
		{
			case 1:
				VMUST_RETURN("operator+=", M += Matrix(b));
				for(int i = 0; i < n; i++)
					for(int j = 0; j < n; j++)
						a[(size_t) i][(size_t) j] += b[(size_t) i][(size_t) j];
				break;
			case 2:
				VMUST_RETURN("operator-=", M -= Matrix(b));
				for(int i = 0; i < n; i++)
					for(int j = 0; j < n; j++)
						a[(size_t) i][(size_t) j] -= b[(size_t) i][(size_t) j];
				break;
			case 3:
			{
				int i = (int) s.range(0, n - 1), j = (int) s.range(0, n - 1);
				double v = s.small_int(6);
				VMUST_RETURN("entry assignment", M[(unsigned) i][(unsigned) j] = v);
				a[(size_t) i][(size_t) j] = v;
				break;
			}
			case 4:
				VMUST_RETURN("assignment of the transpose", M = M.Transpose());
				a = to_d(l_transpose(to_l(a)));
				break;
			case 5:
			{
				Matrix cp(M);
				VMUST_RETURN("copy and assign back", M = cp);
				break;
			}
			case 6:
			{
				double v = s.small_int(3);
				VMUST_RETURN("Assign", M.Assign(n, n, v));
				for(auto& r : a)
					for(auto& x : r)
						x = v;
				break;
			}
			default:
			{
				// shrink and grow again: the new entries are zero
				if(n >= 3)
				{
					VMUST_RETURN("Resize", M.Resize(n - 1, n - 1); M.Resize(n, n));
					for(int i = 0; i < n; i++)
						a[(size_t) i][(size_t) n - 1] = a[(size_t) n - 1][(size_t) i] = 0.0;
				}
				break;
			}
		}
		if(kind != last_kind)
			kinds_since_query++;
		last_kind = kind;
		VLOG(c, "op " << op << " kind " << kind << " -> " << show(a));
	}
	if(nt)
		c.nt();
}

VCLAUSE(nonsquare, 100, 4000, 80000, "shape differs by one row or column from a square matrix")
{
	int m = (int) c.s.range(1, 7), n = (int) c.s.range(1, 6);
	if(n >= m)
		n++;
	if(std::abs(m - n) == 1)
		c.nt();
	Rows a = gen_entries(c.s, m, n, c.s.pick({1, 1}));
	VLOG(c, "A(" << m << "x" << n << ")=" << show(a));
	Matrix A(a);
	int which = (int) c.s.range(0, 2);
	bool inv  = true;
	if(which == 0)
		VMUST_EXIT("Determinant of a non-square matrix", double d = A.Determinant(); (void) d);
	else if(which == 1)
		VMUST_EXIT("Inverse of a non-square matrix", Matrix X = A.Inverse(); (void) X);
	else
	{
		VMUST_RETURN("Invertible of a non-square matrix", inv = A.Invertible());
		VCHECK(!inv, "non-square matrix reported invertible");
	}
}
