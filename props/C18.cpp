// C18 Samplers are reproducible from the generator state and draw from the stated law
#include "../engine/harness.hpp"
#include "../engine/refmath.hpp"

#include <functional>
#include <random>
#include <set>

#include "libphysica/Statistics.hpp"

using namespace vf;
using namespace libphysica;
const char* const vf::kPropertyId = "C18";

namespace
{
// ---- target densities with closed-form CDFs -----------------------------------------------------------------------
struct Target
{
	std::string name;
	std::function<double(double)> pdf, cdf;	  // normalised on [lo,hi]
	double lo, hi;							  // support (finite for the bounded families)
	double pdf_max;
	double mean, sd;
	bool bounded;
};
Target gen_target(Src& s, bool want_bounded, bool centred = false)
{
	Target T;
	T.bounded = want_bounded;
	if(want_bounded)
	{
		double a = s.mixed(-2, 2), w = std::pow(10.0, s.uniform(-2, 2)), b = a + w;
		if(s.chance(0.2))
		{	// a narrow domain at the origin (widths down to 1e-13: e.g. energies in GeV units)
			a = 0.0;
			w = std::pow(10.0, s.uniform(-13, -3));
			b = w;
		}
		T.lo = a;
		T.hi = b;
		switch(s.pick({2, 2, 2, 2}))
		{
			case 0:
			{	// truncated exponential
				double k = s.uniform(-4, 4) / w;
				if(std::fabs(k * w) < 1e-3)
					k = 1.0 / w;
				double Z = std::expm1(k * w) / k;	// int_a^b e^{k(x-a)}
				T.name	 = "truncated_exponential";
				T.pdf	 = [=](double x) { return (x < a || x > b) ? 0.0 : std::exp(k * (x - a)) / Z; };
				T.cdf	 = [=](double x) { return x <= a ? 0.0 : (x >= b ? 1.0 : std::expm1(k * (x - a)) / k / Z); };
				T.pdf_max = std::max(1.0, std::exp(k * w)) / Z;
				break;
			}
			case 1:
			{	// triangular with mode m
				double m = a + w * s.uniform(0.05, 0.95);
				T.name	 = "triangular";
				T.pdf	 = [=](double x) { return (x < a || x > b) ? 0.0 : (x < m ? 2 * (x - a) / (w * (m - a)) : 2 * (b - x) / (w * (b - m))); };
				T.cdf	 = [=](double x) { return x <= a ? 0.0 : (x >= b ? 1.0 : (x < m ? (x - a) * (x - a) / (w * (m - a)) : 1 - (b - x) * (b - x) / (w * (b - m)))); };
				T.pdf_max = 2 / w;
				break;
			}
			case 2:
			{	// Beta(2,2) and Beta(3,2) bumps
				bool b32 = s.coin();
				T.name	 = b32 ? "beta_3_2" : "beta_2_2";
				if(b32)
				{
					T.pdf = [=](double x) { double t = (x - a) / w; return (t < 0 || t > 1) ? 0.0 : 12 * t * t * (1 - t) / w; };
					T.cdf = [=](double x) { double t = (x - a) / w; return t <= 0 ? 0.0 : (t >= 1 ? 1.0 : 4 * t * t * t - 3 * t * t * t * t); };
					T.pdf_max = 12 * (4.0 / 27.0) / w;
				}
				else
				{
					T.pdf = [=](double x) { double t = (x - a) / w; return (t < 0 || t > 1) ? 0.0 : 6 * t * (1 - t) / w; };
					T.cdf = [=](double x) { double t = (x - a) / w; return t <= 0 ? 0.0 : (t >= 1 ? 1.0 : 3 * t * t - 2 * t * t * t); };
					T.pdf_max = 1.5 / w;
				}
				break;
			}
			default:
			{	// two-mode mixture of two triangles on the two halves
				double p = s.uniform(0.2, 0.8), h = w / 2;
				auto tri = [=](double x, double l) { double t = (x - l) / h; return (t < 0 || t > 1) ? 0.0 : (t < 0.5 ? 4 * t : 4 * (1 - t)) / h; };
				auto tric = [=](double x, double l) { double t = (x - l) / h; return t <= 0 ? 0.0 : (t >= 1 ? 1.0 : (t < 0.5 ? 2 * t * t : 1 - 2 * (1 - t) * (1 - t))); };
				T.name	  = "two_mode_mixture";
				T.pdf	  = [=](double x) { return p * tri(x, a) + (1 - p) * tri(x, a + h); };
				T.cdf	  = [=](double x) { return p * tric(x, a) + (1 - p) * tric(x, a + h); };
				T.pdf_max = std::max(p, 1 - p) * 2 / h;
				break;
			}
		}
	}
	else
	{
		double mu = s.mixed(-2, 2), sg = std::pow(10.0, s.uniform(-2, 2));
		if(centred)
			mu = sg * s.uniform(-2, 2);	 // an unbounded Metropolis chain starts near the origin: keep the target within reach of the burn-in
		T.lo = -1e308;
		T.hi = 1e308;
		if(s.coin())
		{
			T.name = "gaussian";
			T.pdf  = [=](double x) { return std::exp(-0.5 * (x - mu) * (x - mu) / (sg * sg)) / (sg * std::sqrt(2 * M_PI)); };
			T.cdf  = [=](double x) { return 0.5 * std::erfc(-(x - mu) / (sg * std::sqrt(2.0))); };
			T.pdf_max = 1 / (sg * std::sqrt(2 * M_PI));
			T.mean = mu;
			T.sd   = sg;
		}
		else
		{
			double d = s.uniform(1.5, 3.0) * sg, p = s.uniform(0.3, 0.7);
			T.name = "two_gaussians";
			T.pdf  = [=](double x) { return (p * std::exp(-0.5 * (x - mu + d) * (x - mu + d) / (sg * sg)) + (1 - p) * std::exp(-0.5 * (x - mu - d) * (x - mu - d) / (sg * sg))) / (sg * std::sqrt(2 * M_PI)); };
			T.cdf  = [=](double x) { return p * 0.5 * std::erfc(-(x - mu + d) / (sg * std::sqrt(2.0))) + (1 - p) * 0.5 * std::erfc(-(x - mu - d) / (sg * std::sqrt(2.0))); };
			T.pdf_max = 1 / (sg * std::sqrt(2 * M_PI));
			T.mean = mu + (1 - 2 * p) * d;
			T.sd   = std::sqrt(sg * sg + 4 * p * (1 - p) * d * d);
		}
	}
	return T;
}
// Kolmogorov-Smirnov: P(sqrt(n) D > x) ~ 2 exp(-2 x^2); significance 1e-9 -> x = 3.274
// ess_factor < 1 deflates the sample size for a correlated chain (AR(1) estimate (1-rho)/(1+rho)); every value must be a finite number
void ks_test(Ctx& c, const char* what, std::vector<double> v, const std::function<double(double)>& cdf, double ess_factor = 1.0)
{
	for(double x : v)
		VCHECK(std::isfinite(x), what << ": the sample contains the non-finite value " << x);
	std::sort(v.begin(), v.end());
	double n = (double) v.size() * ess_factor, D = 0;
	VCHECK(n >= 1, what << ": no effective sample (n=" << v.size() << ", effective fraction " << ess_factor << ")");
	for(size_t i = 0; i < v.size(); i++)
	{
		double F = cdf(v[i]), N = (double) v.size();
		D		 = std::max(D, std::max(F - (double) i / N, (double) (i + 1) / N - F));
	}
	double stat = D * (std::sqrt(n) + 0.12 + 0.11 / std::sqrt(n));
	c.ratio("ks_statistic/critical", stat / 3.274);
	VCHECK(stat <= 3.274, what << ": Kolmogorov-Smirnov statistic sqrt(n)*D = " << stat << " exceeds the 1e-9 critical value 3.274 (n=" << v.size() << ", D=" << D << ")");
}
// chi-square of observed counts vs expected probabilities; critical value at 1e-9 by Wilson-Hilferty (z = 6.0)
void chi2_test(Ctx& c, const char* what, const std::vector<double>& obs, const std::vector<double>& prob, double n)
{
	// pool bins so that every expected count is at least 10
	std::vector<double> po, pe;
	double ao = 0, ae = 0;
	for(size_t i = 0; i < obs.size(); i++)
	{
		ao += obs[i];
		ae += prob[i] * n;
		if(ae >= 10)
		{
			po.push_back(ao);
			pe.push_back(ae);
			ao = ae = 0;
		}
	}
	if(!pe.empty())
	{
		po.back() += ao;
		pe.back() += ae;
	}
	VCHECK(pe.size() >= 2, "harness: " << what << ": fewer than two pooled bins, nothing would be tested");
	double chi2 = 0;
	for(size_t i = 0; i < pe.size(); i++)
		chi2 += (po[i] - pe[i]) * (po[i] - pe[i]) / pe[i];
	double k	= (double) pe.size() - 1;
	double crit = k * std::pow(1 - 2 / (9 * k) + 6.0 * std::sqrt(2 / (9 * k)), 3) + 2;
	c.ratio("chi2/critical", chi2 / crit);
	VCHECK(chi2 <= crit, what << ": chi-square = " << chi2 << " with " << k << " degrees of freedom exceeds the 1e-9 critical value " << crit << " (n=" << n << ")");
}
void moment_test(Ctx& c, const char* what, const std::vector<double>& v, double mean, double sd, double ess_factor = 1.0)
{
	double n = (double) v.size(), m = 0;
	for(double x : v)
		m += x;
	m /= n;
	double z = std::fabs(m - mean) / (sd / std::sqrt(n * ess_factor));
	c.ratio("mean_z/6.1", z / 6.1);
	VCHECK(z <= 6.1, what << ": sample mean " << m << " is " << z << " standard errors from " << mean << " (n=" << v.size() << ")");
}
void inside_test(Ctx& c, const char* what, const std::vector<double>& v, double lo, double hi)
{
	long out = 0;
	double worst = 0;
	for(double x : v)
		if(!(x >= lo && x <= hi))
		{
			out++;
			worst = x;
		}
	VCHECK(out == 0, what << ": " << out << " of " << v.size() << " samples outside the requested support [" << lo << "," << hi << "], e.g. " << worst);
}
int sample_size(Src& s) { return s.size > 100 ? (int) s.range(50000, 200000) : (int) s.range(12000, 30000); }
}	// namespace

// ---- reproducibility, support, exact sample counts ----------------------------------------------------------------------
VCLAUSE(determinism, 400, 3000, 60000, "the sequence interleaves at least three different samplers on one generator and contains an odd number of Gaussian draws or a Metropolis call")
{
	Src& s = c.s;
	unsigned seed = (unsigned) s.below(4294967296ULL);
	unsigned adv  = (unsigned) s.range(0, 2000);
	int nops	  = (int) s.range(1, 12);
	// decode the operation list once; run it on generator A, then on generator B in the same state
	struct Op
	{
		int kind;
		double p1, p2, p3;
		unsigned n1, n2, n3;
		Target T;
		bool bounded;
	};
	std::vector<Op> ops;
	std::set<int> kinds;
	int gauss_draws = 0;
	bool metro = false;
	for(int i = 0; i < nops; i++)
	{
		Op o;
		o.kind	  = (int) s.range(0, 8);
		o.p1	  = s.mixed(-2, 2);
		o.p2	  = std::pow(10.0, s.uniform(-2, 2));
		o.p3	  = s.uniform(1, 20);
		o.n1	  = (unsigned) s.range(0, 40);
		o.n2	  = (unsigned) s.range(1, 12);
		o.n3	  = (unsigned) s.range(0, 30);
		o.bounded = s.coin();
		o.T		  = gen_target(s, (o.kind >= 4 && o.kind <= 6) ? true : o.bounded);
		ops.push_back(o);
		kinds.insert(o.kind);
		if(o.kind == 1)
			gauss_draws++;
		if(o.kind >= 7)
			metro = true;
	}
	if(kinds.size() >= 3 && (gauss_draws % 2 == 1 || metro))
		c.nt();
	VLOG(c, "seed " << seed << " advanced by " << adv << ", " << nops << " sampler calls");
	auto run_ops = [&](std::mt19937& g, std::vector<double>& out) {
		for(auto& o : ops)
		{
			switch(o.kind)
			{
				case 0:
				{
					double v = Sample_Uniform(g, o.p1, o.p1 + o.p2);
					VCHECK(v >= o.p1 && v <= o.p1 + o.p2, "Sample_Uniform(" << o.p1 << "," << o.p1 + o.p2 << ")=" << v);
					out.push_back(v);
					break;
				}
				case 1: out.push_back(Sample_Gauss(g, o.p1, o.p2)); break;
				case 2:
				{
					double mean = o.p2 * o.p3;
					out.push_back((double) Sample_Poisson(g, mean));
					break;
				}
				case 3:
				{
					std::vector<double> means = {o.p2, o.p2 * 3, 0.0, o.p3};
					// the list overload draws from the generator passed to it, one value per mean, like the scalar calls in the same order
					std::mt19937 twin = g, before = g;
					std::vector<unsigned> expect;
					for(double m : means)
						expect.push_back(Sample_Poisson(twin, m));
					std::vector<unsigned> v = Sample_Poisson(g, means);
					// (the order in which the means are served is not promised: agreement with the scalar calls in list order is counted; that
					// the generator passed in was drawn from is required - three of the four means are positive)
					VCHECK(!(g == before), "Sample_Poisson(list) returned " << v.size() << " samples without advancing the generator passed to it");
					if(v == expect && g == twin)
						c.cls("poisson_list_equals_scalar_calls_in_order");
					VCHECK(v.size() == means.size(), "Sample_Poisson(list) returned " << v.size() << " values");
					VCHECK(v[2] == 0, "Sample_Poisson with mean 0 returned " << v[2]);
					for(auto x : v)
						out.push_back((double) x);
					break;
				}
				case 4:
				{
					double v = Inverse_Transform_Sampling(o.T.cdf, o.T.lo, o.T.hi, g);
					VCHECK(v >= o.T.lo && v <= o.T.hi, "Inverse_Transform_Sampling returned " << v << " outside [" << o.T.lo << "," << o.T.hi << "]");
					out.push_back(v);
					break;
				}
				case 5:
				{
					double v = Rejection_Sampling(o.T.pdf, o.T.lo, o.T.hi, o.T.pdf_max * o.p3, g);
					VCHECK(v >= o.T.lo && v <= o.T.hi, "Rejection_Sampling returned " << v << " outside [" << o.T.lo << "," << o.T.hi << "]");
					out.push_back(v);
					break;
				}
				case 6:
				{
					double y0 = o.p1, y1 = o.p1 + o.p2;
					std::function<double(double, double)> pdf2 = [&](double x, double y) { return o.T.pdf(x) * (y < y0 || y > y1 ? 0.0 : 1.0 / (y1 - y0)); };
					std::pair<double, double> v = Rejection_Sampling_2D(g, pdf2, o.T.lo, o.T.hi, y0, y1, o.T.pdf_max / (y1 - y0) * o.p3);
					VCHECK(v.first >= o.T.lo && v.first <= o.T.hi && v.second >= y0 && v.second <= y1, "Rejection_Sampling_2D returned (" << v.first << "," << v.second << ") outside its rectangle");
					out.push_back(v.first);
					out.push_back(v.second);
					break;
				}
				case 7:
				{
					std::vector<double> dom;
					double w = o.T.bounded ? (o.T.hi - o.T.lo) : 4 * o.T.sd;
					if(o.T.bounded)
						dom = {o.T.lo, o.T.hi};
					std::vector<double> v = Sample_Metropolis(g, o.T.pdf, 0.4 * w, o.n1, o.n2, o.n3, dom);
					VCHECK(v.size() == o.n1, "Sample_Metropolis(sample=" << o.n1 << ", thinning=" << o.n2 << ", burn_in=" << o.n3 << ") returned " << v.size() << " values");
					for(double x : v)
					{
						if(o.T.bounded)
							VCHECK(x >= o.T.lo && x <= o.T.hi, "Sample_Metropolis returned " << x << " outside the domain [" << o.T.lo << "," << o.T.hi << "]");
						out.push_back(x);
					}
					break;
				}
				default:
				{
					// 2D: product of the target in x and a triangle in y on a rectangle with different x and y ranges
					double y0 = o.p1 - 3 * o.p2, y1 = o.p1 + 2 * o.p2;
					double x0 = o.T.bounded ? o.T.lo : o.T.mean - 3 * o.T.sd, x1 = o.T.bounded ? o.T.hi : o.T.mean + 5 * o.T.sd;
					std::function<double(double, double)> pdf2 = [&](double x, double y) { double t = (y - y0) / (y1 - y0); return o.T.pdf(x) * (t < 0 || t > 1 ? 0.0 : 1 + t); };
					std::vector<double> dom;
					if(o.bounded)
						dom = {x0, x1, y0, y1};
					std::vector<std::pair<double, double>> v = Sample_Metropolis_2D(g, pdf2, {0.4 * (x1 - x0), 0.4 * (y1 - y0)}, o.n1, o.n2, o.n3, dom);
					VCHECK(v.size() == o.n1, "Sample_Metropolis_2D(sample=" << o.n1 << ", thinning=" << o.n2 << ", burn_in=" << o.n3 << ") returned " << v.size() << " values");
					for(auto& p : v)
					{
						if(o.bounded)
							VCHECK(p.first >= x0 && p.first <= x1 && p.second >= y0 && p.second <= y1, "Sample_Metropolis_2D returned (" << p.first << "," << p.second << ") outside the domain x[" << x0 << "," << x1 << "] y[" << y0 << "," << y1 << "]");
						out.push_back(p.first);
						out.push_back(p.second);
					}
					break;
				}
			}
		}
	};
	std::mt19937 A(seed), B(seed), untouched(seed + 1), untouched_ref(seed + 1);
	A.discard(adv);
	B.discard(adv);
	std::vector<double> oa, ob;
	VMUST_RETURN("samplers on generator A", run_ops(A, oa));
	VMUST_RETURN("samplers on generator B (same initial state)", run_ops(B, ob));
	VCHECK(oa.size() == ob.size(), "equal generator states gave " << oa.size() << " and " << ob.size() << " values");
	for(size_t i = 0; i < oa.size(); i++)
		VCHECK(same_bits(oa[i], ob[i]), "equal generator states gave different outputs: value " << i << " is " << oa[i] << " in the first run and " << ob[i] << " in the second (randomness taken from somewhere else than the generator passed in)");
	VCHECK(A == B, "equal generator states before the calls, different states afterwards");
	VCHECK(untouched == untouched_ref, "a generator that was not passed to any sampler changed its state");
}

// the exact number of samples for every (sample, thinning, burn_in) of a grid
VCLAUSE(metropolis_counts, 12, 1200, 20000, "thinning > 1 and burn_in is not a multiple of the thinning")
{
	Src& s = c.s;
	unsigned sample = (unsigned) s.range(0, 200), thin = (unsigned) s.range(1, 200), burn = (unsigned) s.range(0, 200);
	if(s.coin())
	{
		sample = (unsigned) s.range(0, 12);
		thin   = (unsigned) s.range(1, 12);
		burn   = (unsigned) s.range(0, 12);
	}
	if((unsigned long) sample * thin > 6000)
		sample = 6000 / thin;
	if(thin > 1 && burn % thin != 0)
		c.nt();
	std::mt19937 g((unsigned) s.below(4294967296ULL));
	auto pdf  = [](double x) { return std::exp(-0.5 * x * x); };
	auto pdf2 = [](double x, double y) { return std::exp(-0.5 * (x * x + y * y)); };
	bool two = s.coin(), bounded = s.coin();
	if(s.chance(0.04))
	{
		// "exhaustive on a grid": every triple of the fine grid 0..6 x 1..6 x 0..6, or of the coarse grid {0,1,2,3,7,20,64,200}^3 (thinning >= 1)
		bool fine = s.coin();
		static const unsigned coarse[] = {0, 1, 2, 3, 7, 20, 64, 200};
		c.nt();
		c.cls(fine ? "grid_sweep_fine" : "grid_sweep_coarse");
		long triples = 0;
		for(unsigned a = 0; a < (fine ? 7u : 8u); a++)
			for(unsigned b = 0; b < (fine ? 6u : 7u); b++)
				for(unsigned d = 0; d < (fine ? 7u : 8u); d++)
				{
					unsigned sm = fine ? a : coarse[a], th = fine ? b + 1 : coarse[b + 1], bu = fine ? d : coarse[d];
					size_t got = 0;
					if(two)
						VMUST_RETURN("Sample_Metropolis_2D", got = Sample_Metropolis_2D(g, pdf2, {1.0, 1.5}, sm, th, bu, bounded ? std::vector<double> {-3, 3, -2, 4} : std::vector<double> {}).size());
					else
						VMUST_RETURN("Sample_Metropolis", got = Sample_Metropolis(g, pdf, 1.0, sm, th, bu, bounded ? std::vector<double> {-3, 3} : std::vector<double> {}).size());
					VCHECK(got == sm, "requested " << sm << " samples with thinning " << th << " and burn-in " << bu << ", received " << got);
					triples++;
				}
		VLOG(c, "grid sweep over " << triples << " (sample, thinning, burn_in) triples, " << (two ? "2D" : "1D") << (bounded ? " bounded" : " unbounded"));
		return;
	}
	VLOG(c, "Sample_Metropolis" << (two ? "_2D" : "") << " sample=" << sample << " thinning=" << thin << " burn_in=" << burn << " bounded=" << bounded);
	size_t got = 0;
	if(two)
		VMUST_RETURN("Sample_Metropolis_2D", got = Sample_Metropolis_2D(g, pdf2, {1.0, 1.5}, sample, thin, burn, bounded ? std::vector<double> {-3, 3, -2, 4} : std::vector<double> {}).size());
	else
		VMUST_RETURN("Sample_Metropolis", got = Sample_Metropolis(g, pdf, 1.0, sample, thin, burn, bounded ? std::vector<double> {-3, 3} : std::vector<double> {}).size());
	VCHECK(got == sample, "requested " << sample << " samples with thinning " << thin << " and burn-in " << burn << ", received " << got);
}

// ---- the empirical law matches the target (significance 1e-9 per test) ------------------------------------------------------
VCLAUSE(law_basic, 20, 800, 8000, "Poisson mean above 500, or a Gaussian with |mean| > 10 widths")
{
	Src& s = c.s;
	std::mt19937 g((unsigned) s.below(4294967296ULL));
	g.discard((unsigned) s.range(0, 5000));
	int which = s.pick({1, 2, 3});
	int n	  = sample_size(s);
	if(which == 0)
	{
		double a = s.mixed(-3, 3), w = std::pow(10.0, s.uniform(-3, 3));
		c.cls("Sample_Uniform");
		VLOG(c, "Sample_Uniform(" << a << "," << a + w << ") n=" << n);
		std::vector<double> v((size_t) n);
		VMUST_RETURN("Sample_Uniform", for(auto& x : v) x = Sample_Uniform(g, a, a + w));
		ks_test(c, "Sample_Uniform", v, [=](double x) { return std::min(1.0, std::max(0.0, (x - a) / w)); });
		moment_test(c, "Sample_Uniform", v, a + w / 2, w / std::sqrt(12.0));
	}
	else if(which == 1)
	{
		double sg = std::pow(10.0, s.uniform(-3, 3)), mu = s.coin() ? s.mixed(-3, 3) : s.sign() * sg * s.uniform(10, 1000);
		if(std::fabs(mu) > 10 * sg)
			c.nt();
		c.cls("Sample_Gauss");
		VLOG(c, "Sample_Gauss(" << mu << "," << sg << ") n=" << n);
		std::vector<double> v((size_t) n);
		VMUST_RETURN("Sample_Gauss", for(auto& x : v) x = Sample_Gauss(g, mu, sg));
		// Inv_Erf is accurate to 1e-4 only: compare the law with that resolution (a shift of 1.5e-4 sigma moves the CDF by at most 6e-5)
		ks_test(c, "Sample_Gauss", v, [=](double x) { return 0.5 * std::erfc(-(x - mu) / (sg * std::sqrt(2.0))); });
		moment_test(c, "Sample_Gauss", v, mu, sg);
		double m2 = 0;
		for(double x : v)
			m2 += (x - mu) * (x - mu);
		m2 /= n;
		double z = std::fabs(m2 / (sg * sg) - 1) / std::sqrt(2.0 / n);
		c.ratio("variance_z/6.1", z / 6.1);
		VCHECK(z <= 6.1 + 1e-3 * std::sqrt(n / 2.0), "Sample_Gauss: sample variance " << m2 << " vs " << sg * sg << " (" << z << " standard errors)");
	}
	else
	{
		double mean = s.pick({3, 2, 2}) == 0 ? std::pow(10.0, s.uniform(-2, 1)) : (s.coin() ? s.uniform(10, 500) : s.uniform(500, 5000));
		if(mean > 500)
			c.nt();
		n = (int) std::min<double>(n, 2.5e7 / (mean + 10));
		n = std::max(n, 4000);
		c.cls(mean > 500 ? "Sample_Poisson_mean_gt_500" : "Sample_Poisson");
		VLOG(c, "Sample_Poisson(" << mean << ") n=" << n);
		std::vector<double> v((size_t) n);
		VMUST_RETURN("Sample_Poisson", for(auto& x : v) x = (double) Sample_Poisson(g, mean));
		moment_test(c, "Sample_Poisson", v, mean, std::sqrt(mean));
		// chi-square on the mass function over mean +- 6 sqrt(mean), tails pooled
		int lo = (int) std::max(0.0, std::floor(mean - 6 * std::sqrt(mean) - 2)), hi = (int) std::ceil(mean + 6 * std::sqrt(mean) + 6);
		std::vector<double> obs((size_t) (hi - lo + 3), 0.0), prob((size_t) (hi - lo + 3), 0.0);
		for(double x : v)
		{
			int k = (int) x;
			int b = k < lo ? 0 : (k > hi ? hi - lo + 2 : k - lo + 1);
			obs[(size_t) b]++;
		}
		long double below = lo > 0 ? ref::poisson_cdf(mean, (unsigned) (lo - 1)) : 0.0L;
		prob[0] = (double) below;
		long double acc = below;
		for(int k = lo; k <= hi; k++)
		{
			long double p = ref::poisson_pmf(mean, (unsigned) k);
			prob[(size_t) (k - lo + 1)] = (double) p;
			acc += p;
		}
		prob.back() = (double) std::max(0.0L, 1.0L - acc);
		chi2_test(c, "Sample_Poisson", obs, prob, n);
	}
}

VCLAUSE(law_general, 60, 600, 6000, "a loose rejection envelope (yMax >= 10 max pdf), a two-mode target, or a bounded Metropolis domain")
{
	Src& s = c.s;
	std::mt19937 g((unsigned) s.below(4294967296ULL));
	g.discard((unsigned) s.range(0, 5000));
	int which = s.pick({2, 2, 1, 3, 2});
	int n	  = sample_size(s);
	if(which == 0)
	{
		Target T = gen_target(s, true);
		if(T.name == "two_mode_mixture")
			c.nt();
		c.cls("Inverse_Transform_Sampling");
		VLOG(c, "Inverse_Transform_Sampling of " << T.name << " on [" << T.lo << "," << T.hi << "] n=" << n);
		std::vector<double> v((size_t) n);
		VMUST_RETURN("Inverse_Transform_Sampling", for(auto& x : v) x = Inverse_Transform_Sampling(T.cdf, T.lo, T.hi, g));
		inside_test(c, "Inverse_Transform_Sampling", v, T.lo, T.hi);
		ks_test(c, "Inverse_Transform_Sampling", v, T.cdf);
	}
	else if(which == 1)
	{
		Target T = gen_target(s, true);
		double env = s.coin() ? s.uniform(1, 3) : s.uniform(10, 50);
		if(s.chance(0.15))
		{
			// an envelope typed to a few digits: up to 0.4 % below the true maximum, which the sampler tolerates (it objects beyond 1 %); the
			// law is then off by less than 3e-4 in Kolmogorov distance, far below the resolution of the test
			env = 1.0 - s.uniform(0, 0.004);
			c.cls("envelope_undershoots_by_less_than_half_a_percent");
		}
		if(env >= 10 || T.name == "two_mode_mixture")
			c.nt();
		n = (int) std::min<double>(n, 6e5 / env);
		c.cls("Rejection_Sampling");
		VLOG(c, "Rejection_Sampling of " << T.name << " on [" << T.lo << "," << T.hi << "] envelope " << env << " x max pdf, n=" << n);
		std::vector<double> v((size_t) n);
		VMUST_RETURN("Rejection_Sampling", for(auto& x : v) x = Rejection_Sampling(T.pdf, T.lo, T.hi, T.pdf_max * env, g));
		inside_test(c, "Rejection_Sampling", v, T.lo, T.hi);
		ks_test(c, "Rejection_Sampling", v, T.cdf);
	}
	else if(which == 2)
	{
		Target T = gen_target(s, true);
		double y0 = s.mixed(-2, 2), y1 = y0 + std::pow(10.0, s.uniform(-2, 2)), env = s.uniform(1, 20);
		n = (int) std::min<double>(n, 4e5 / env);
		c.nt();
		c.cls("Rejection_Sampling_2D");
		VLOG(c, "Rejection_Sampling_2D of " << T.name << " x (1+t) on [" << T.lo << "," << T.hi << "]x[" << y0 << "," << y1 << "] n=" << n);
		std::function<double(double, double)> pdf2 = [=](double x, double y) { double t = (y - y0) / (y1 - y0); return T.pdf(x) * ((t < 0 || t > 1) ? 0.0 : (1 + t) / 1.5 / (y1 - y0)); };
		std::vector<double> vx((size_t) n), vy((size_t) n);
		VMUST_RETURN("Rejection_Sampling_2D", for(int i = 0; i < n; i++) { auto p = Rejection_Sampling_2D(g, pdf2, T.lo, T.hi, y0, y1, T.pdf_max * 2 / 1.5 / (y1 - y0) * env); vx[(size_t) i] = p.first; vy[(size_t) i] = p.second; });
		inside_test(c, "Rejection_Sampling_2D (x)", vx, T.lo, T.hi);
		inside_test(c, "Rejection_Sampling_2D (y)", vy, y0, y1);
		ks_test(c, "Rejection_Sampling_2D (x marginal)", vx, T.cdf);
		ks_test(c, "Rejection_Sampling_2D (y marginal)", vy, [=](double y) { double t = std::min(1.0, std::max(0.0, (y - y0) / (y1 - y0))); return (t + t * t / 2) / 1.5; });
		// independence: chi-square on a 4x4 grid of the two probability transforms
		std::vector<double> obs(16, 0.0), prob(16, 1.0 / 16);
		for(int i = 0; i < n; i++)
		{
			double u = T.cdf(vx[(size_t) i]), t = std::min(1.0, std::max(0.0, (vy[(size_t) i] - y0) / (y1 - y0))), w = (t + t * t / 2) / 1.5;
			obs[(size_t) (std::min(3, (int) (u * 4)) * 4 + std::min(3, (int) (w * 4)))]++;
		}
		chi2_test(c, "Rejection_Sampling_2D (joint)", obs, prob, n);
	}
	else if(which == 3)
	{
		bool bounded = s.coin();
		Target T	 = gen_target(s, bounded, true);
		if(bounded || T.name == "two_gaussians")
			c.nt();
		double w	  = bounded ? (T.hi - T.lo) : T.sd;
		double sigma  = (bounded ? 0.5 : 2.0) * w * s.uniform(0.6, 1.5);
		unsigned thin = 40, burn = 500;
		n			  = std::min(n, 5000);
		c.cls(bounded ? "Sample_Metropolis_bounded" : "Sample_Metropolis_unbounded");
		VLOG(c, "Sample_Metropolis of " << T.name << " sigma=" << sigma << " thinning=" << thin << " n=" << n << " bounded=" << bounded);
		// the requested domain may be wider than the support of the density (density exactly zero in the margins)
		double margin = (bounded && s.coin()) ? w * (s.coin() ? s.uniform(0.3, 1.5) : s.uniform(2.0, 6.0)) : 0.0;
		if(margin > 0)
		{
			// the chain starts uniformly in the domain, i.e. usually where the density vanishes, and has to walk into the support
			c.cls("metropolis_domain_wider_than_support");
			burn = 20000;
		}
		std::vector<double> v;
		VMUST_RETURN("Sample_Metropolis", v = Sample_Metropolis(g, T.pdf, sigma, (unsigned) n, thin, burn, bounded ? std::vector<double> {T.lo - margin, T.hi + margin} : std::vector<double> {}));
		VCHECK((int) v.size() == n, "Sample_Metropolis returned " << v.size() << " of " << n << " samples");
		if(bounded)
		{
			long outside = 0;
			for(double x : v)
				if(x < T.lo - margin || x > T.hi + margin)
					outside++;
			VCHECK(outside == 0, outside << " of " << n << " Metropolis samples outside the requested domain");
			long zero = 0;
			for(double x : v)
				if(!(T.pdf(x) > 0) && x != T.lo && x != T.hi)
					zero++;
			VCHECK(zero <= n / 100, zero << " of " << n << " Metropolis samples (after a burn-in of " << burn << " steps) lie where the target density is zero");
		}
		// lag-1 autocorrelation: with thinning 40 and a proposal of the target's width the chain is decorrelated
		double m = 0, var = 0, cov = 0;
		for(double x : v)
			m += x;
		m /= n;
		for(int i = 0; i < n; i++)
		{
			var += (v[(size_t) i] - m) * (v[(size_t) i] - m);
			if(i + 1 < n)
				cov += (v[(size_t) i] - m) * (v[(size_t) i + 1] - m);
		}
		VCHECK(var > 0, "all " << n << " Metropolis samples are identical (" << m << "): the chain never moved");
		double rho = cov / var;
		c.ratio("lag1_autocorrelation/0.15", std::fabs(rho) / 0.15);
		if(std::fabs(rho) < 0.1)
			ks_test(c, "Sample_Metropolis", v, T.cdf);
		else
		{
			// a correlated chain still has the target law: the same test with the effective sample size of an AR(1) chain
			c.cls("metropolis_correlated");
			VCHECK(std::fabs(rho) < 0.9, "Sample_Metropolis: lag-1 autocorrelation " << rho << " after thinning by " << thin << " with a proposal of the target's width: the chain hardly moves");
			ks_test(c, "Sample_Metropolis (correlated chain, effective sample size corrected)", v, T.cdf, (1 - std::fabs(rho)) / (1 + std::fabs(rho)));
		}
	}
	else
	{
		bool bounded = s.coin();
		double x0 = s.mixed(-2, 2), wx = std::pow(10.0, s.uniform(-1, 1)), y0 = s.mixed(-2, 2), wy = wx * std::pow(10.0, s.uniform(-0.7, 0.7));
		if(!bounded)
		{
			x0 = wx * s.uniform(-2, 2);
			y0 = wy * s.uniform(-2, 2);
		}
		// density (1+tx)(2-ty) on the rectangle (bounded) / product of Gaussians (unbounded)
		std::function<double(double, double)> pdf2;
		std::function<double(double)> cx, cy;
		if(bounded)
		{
			pdf2 = [=](double x, double y) { double tx = (x - x0) / wx, ty = (y - y0) / wy; return (tx < 0 || tx > 1 || ty < 0 || ty > 1) ? 0.0 : (1 + tx) * (2 - ty); };
			cx	 = [=](double x) { double t = std::min(1.0, std::max(0.0, (x - x0) / wx)); return (t + t * t / 2) / 1.5; };
			cy	 = [=](double y) { double t = std::min(1.0, std::max(0.0, (y - y0) / wy)); return (2 * t - t * t / 2) / 1.5; };
			c.nt();
		}
		else
		{
			pdf2 = [=](double x, double y) { return std::exp(-0.5 * ((x - x0) * (x - x0) / (wx * wx) + (y - y0) * (y - y0) / (wy * wy))); };
			cx	 = [=](double x) { return 0.5 * std::erfc(-(x - x0) / (wx * std::sqrt(2.0))); };
			cy	 = [=](double y) { return 0.5 * std::erfc(-(y - y0) / (wy * std::sqrt(2.0))); };
		}
		n = std::min(n, 4000);
		c.cls(bounded ? "Sample_Metropolis_2D_bounded" : "Sample_Metropolis_2D_unbounded");
		VLOG(c, "Sample_Metropolis_2D on x0=" << x0 << " wx=" << wx << " y0=" << y0 << " wy=" << wy << " bounded=" << bounded << " n=" << n);
		std::vector<std::pair<double, double>> v;
		double fx = bounded ? 0.5 : 2.0;
		// an unbounded chain starts at a Gaussian around the origin: give it a burn-in that reaches the target
		// (bounded: the requested rectangle may be wider than the support, the chain then starts where the density vanishes)
		double mx = (bounded && s.coin()) ? wx * s.uniform(0.3, 2.0) : 0.0, my = mx > 0 ? wy * s.uniform(0.3, 2.0) : 0.0;
		unsigned burn2 = mx > 0 ? 20000u : 1000u;
		if(mx > 0)
			c.cls("metropolis_2d_domain_wider_than_support");
		VMUST_RETURN("Sample_Metropolis_2D", v = Sample_Metropolis_2D(g, pdf2, {fx * wx, fx * wy}, (unsigned) n, 40, burn2, bounded ? std::vector<double> {x0 - mx, x0 + wx + mx, y0 - my, y0 + wy + my} : std::vector<double> {}));
		VCHECK((int) v.size() == n, "Sample_Metropolis_2D returned " << v.size() << " of " << n);
		std::vector<double> vx, vy;
		for(auto& p : v)
		{
			vx.push_back(p.first);
			vy.push_back(p.second);
		}
		if(!bounded && (std::fabs(x0) > 30 * wx || std::fabs(y0) > 30 * wy))
			return;	  // the start (Gaussian around the origin) may be farther from the target than the burn-in can bridge: outside the tested domain
		if(bounded)
		{
			inside_test(c, "Sample_Metropolis_2D (x)", vx, x0 - mx, x0 + wx + mx);
			inside_test(c, "Sample_Metropolis_2D (y)", vy, y0 - my, y0 + wy + my);
			long zero = 0;
			for(auto& q : v)
				if(!(pdf2(q.first, q.second) > 0))
					zero++;
			VCHECK(zero <= n / 100, zero << " of " << n << " two-dimensional Metropolis samples lie where the target density is zero");
		}
		ks_test(c, "Sample_Metropolis_2D (x marginal)", vx, cx);
		ks_test(c, "Sample_Metropolis_2D (y marginal)", vy, cy);
	}
}
