// C19 Partition, grid, search, list and summary-statistics helpers meet their specs
#include "../engine/harness.hpp"

#include <iostream>
#include <numeric>
#include <string>
#include <vector>

#include "libphysica/List_Manipulations.hpp"
#include "libphysica/Statistics.hpp"
#include "libphysica/Utilities.hpp"

using namespace vf;
using namespace libphysica;
const char* const vf::kPropertyId = "C19";

// one case = one worker count, all task counts 0..1024 (the whole finite domain is covered 128 cases at a time)
VCLAUSE(workload_distribution, 4, 1500, 20000, "workers does not divide tasks (a remainder must be spread), for some task count of the sweep")
{
	unsigned workers = (unsigned) c.s.range(1, 128);
	c.nt();
	VLOG(c, "workers=" << workers << ", tasks=0..1024");
	for(unsigned tasks = 0; tasks <= 1024; tasks++)
	{
		std::vector<int> idx;
		VMUST_RETURN("Workload_Distribution", idx = Workload_Distribution(workers, tasks));
		VCHECK(idx.size() == workers + 1, "Workload_Distribution(" << workers << "," << tasks << ") has " << idx.size() << " entries");
		VCHECK(idx.front() == 0 && idx.back() == (int) tasks, "Workload_Distribution(" << workers << "," << tasks << ") runs from " << idx.front() << " to " << idx.back());
		int dmin = 1 << 30, dmax = -1;
		for(unsigned i = 0; i < workers; i++)
		{
			int d = idx[i + 1] - idx[i];
			VCHECK(d >= 0, "Workload_Distribution(" << workers << "," << tasks << ") decreases at " << i);
			dmin = std::min(dmin, d);
			dmax = std::max(dmax, d);
		}
		VCHECK(dmax - dmin <= 1, "Workload_Distribution(" << workers << "," << tasks << "): shares differ by " << dmax - dmin);
	}
}

VCLAUSE(spaces, 12, 12000, 250000, "limits given in descending order, or more than 100 points, or the limits differ by less than 1e-6 relative")
{
	Src& s = c.s;
	bool logsp	   = s.coin();
	unsigned steps = s.pick({1, 3, 2}) == 0 ? (unsigned) s.range(0, 3) : (s.coin() ? (unsigned) s.range(2, 100) : (unsigned) s.range(101, 2000));
	double a, b;
	if(logsp)
	{
		a = std::pow(10.0, s.uniform(-30, 30));
		b = s.chance(0.2) ? a * (1 + std::pow(10.0, s.uniform(-12, -1))) : std::pow(10.0, s.uniform(-30, 30));
	}
	else
	{
		a = s.mixed(-6, 6);
		b = s.chance(0.2) ? a + (std::fabs(a) + 1e-6) * std::pow(10.0, s.uniform(-12, -1)) : s.mixed(-6, 6);
	}
	if(s.chance(0.05))
		b = a;
	if(!logsp && s.chance(0.08))
	{
		// grids of tiny absolute extent next to the origin (limits 1e-300..1e-15): small is not degenerate
		double m = std::pow(10.0, s.uniform(-300, -15));
		a = s.chance(0.3) ? 0.0 : s.sign() * m * s.unit();
		b = s.sign() * m * (0.1 + s.unit());
		c.cls("tiny_absolute_extent");
	}
	double scale = std::max(std::fabs(a), std::fabs(b));
	bool distinct = (a != b);
	if(distinct && std::fabs(b - a) < 1e-12 * scale)
		throw Discard();   // spacing below the stated resolution
	if(a > b || steps > 100 || (distinct && std::fabs(b - a) < 1e-6 * scale))
		c.nt();
	c.cls(logsp ? "Log_Space" : "Linear_Space");
	VLOG(c, (logsp ? "Log_Space(" : "Linear_Space(") << a << "," << b << "," << steps << ")");
	std::vector<double> v;
	VMUST_RETURN("Linear/Log_Space", v = logsp ? Log_Space(a, b, steps) : Linear_Space(a, b, steps));
	if(steps < 2 || !distinct)
	{
		VCHECK(v.size() == 1 && v[0] == a, "degenerate request must give {min}, got " << v.size() << " values");
		return;
	}
	VCHECK(v.size() == steps, "returned " << v.size() << " points for " << steps << " steps");
	VCHECK(logsp ? std::fabs(v[0] / a - 1) <= 4 * EPS * (1 + std::fabs(std::log(a))) : v[0] == a, "first point " << v[0] << " is not min=" << a);
	double lastrel = logsp ? 4 * EPS * (2 + std::fabs(std::log(a)) + std::fabs(std::log(b))) : 4 * EPS;
	VCLOSE(c, logsp ? "log_last_point" : "linear_last_point", v.back(), b, lastrel * (logsp ? std::fabs(b) : scale), "last point vs max");
	double dir = b > a ? 1 : -1;
	// strictly monotone, equally spaced (in the logarithm)
	long double step = logsp ? (logl((long double) b) - logl((long double) a)) / (steps - 1) : ((long double) b - a) / (steps - 1);
	double resol = logsp ? EPS * (1 + std::fabs(std::log(a)) + std::fabs(std::log(b))) : EPS * scale;
	for(unsigned i = 0; i < steps; i++)
	{
		if(i > 0 && std::fabs((double) step) > 8 * resol)
			VCHECK(dir * (v[i] - v[i - 1]) > 0, "not strictly monotone at " << i << ": " << v[i - 1] << " then " << v[i]);
		long double expect = logsp ? logl((long double) a) + i * step : (long double) a + i * step;
		long double got	   = logsp ? logl((long double) v[i]) : (long double) v[i];
		VCLOSE(c, logsp ? "log_equal_spacing" : "linear_equal_spacing", (double) (got - expect), 0.0, 8 * resol, "point " << i << " is not at min+i*step" << (logsp ? " (in the logarithm)" : ""));
	}
}

// one case = (min, step) and the overload; all max in [-40,40]
VCLAUSE(range, 6, 3000, 40000, "min > max (descending) or the step does not divide max-min, for some max of the sweep")
{
	Src& s = c.s;
	int mn = (int) s.range(-40, 40), st = (int) s.range(1, 40);
	bool one_arg = s.chance(0.15);
	c.nt();
	VLOG(c, "Range(min=" << mn << ", max=-40..40, step=" << st << ") one_arg=" << one_arg);
	for(int mx = -40; mx <= 40; mx++)
	{
		std::vector<int> r, e;
		int lo = one_arg ? 0 : mn, step = one_arg ? 1 : st;
		if(one_arg)
			VMUST_RETURN("Range(max)", r = Range(mx));
		else if(st == 1 && s.coin())
			VMUST_RETURN("Range(min,max)", r = Range(mn, mx));
		else
			VMUST_RETURN("Range(min,max,step)", r = Range(mn, mx, st));
		if(lo < mx)
			for(int i = lo; i < mx; i += step)
				e.push_back(i);
		else
			for(int i = lo; i > mx; i -= step)
				e.push_back(i);
		VCHECK(r == e, "Range(" << lo << "," << mx << "," << step << ") has " << r.size() << " elements" << (r.empty() ? "" : " ending at " + std::to_string(r.back())) << ", the half-open range has " << e.size() << (e.empty() ? "" : " ending at " + std::to_string(e.back())));
	}
}

VCLAUSE(closest_location, 80, 12000, 250000, "the target is tied between two elements, lies outside the list, or the list has duplicates")
{
	Src& s = c.s;
	int n = (int) s.range(1, 64);
	std::vector<double> l((size_t) n);
	bool dup = false;
	double v = s.mixed(-3, 3);
	bool ints = s.coin();
	for(int i = 0; i < n; i++)
	{
		if(i > 0)
		{
			if(s.chance(0.2))
				dup = true;
			else
				v += ints ? (double) s.range(1, 4) : std::pow(10.0, s.uniform(-6, 2));
		}
		else if(ints)
			v = std::floor(v);
		l[(size_t) i] = v;
	}
	double t;
	int mode = s.pick({3, 2, 1, 1, 2});
	int k	 = (int) s.range(0, n - 1);
	if(mode == 0)
		t = l[(size_t) k] + (l[(size_t) std::min(k + 1, n - 1)] - l[(size_t) k]) * s.unit();
	else if(mode == 1)
		t = 0.5 * (l[(size_t) k] + l[(size_t) std::min(k + 1, n - 1)]);	  // tie (exact for integer lists)
	else if(mode == 2)
		t = l[0] - std::pow(10.0, s.uniform(-6, 3));
	else if(mode == 3)
		t = l[(size_t) n - 1] + std::pow(10.0, s.uniform(-6, 3));
	else
		t = l[(size_t) k];
	if(mode == 1 || mode == 2 || mode == 3 || dup)
		c.nt();
	VLOG(c, "list " << show(l, 64) << " target " << t);
	unsigned idx = 0;
	VMUST_RETURN("Locate_Closest_Location", idx = Locate_Closest_Location(l, t));
	VCHECK(idx < (unsigned) n, "index " << idx << " out of range for a list of " << n);
	double best = 1e308;
	for(double e : l)
		best = std::min(best, std::fabs(e - t));
	VCHECK(std::fabs(l[idx] - t) == best, "element " << l[idx] << " at index " << idx << " is at distance " << std::fabs(l[idx] - t) << " from " << t << ", the nearest element is at distance " << best);
}

VCLAUSE(list_templates, 120, 12000, 250000, "lists differ in length or in one element, or an index lies at size-1/size/size+1")
{
	Src& s = c.s;
	int n = (int) s.range(0, 12), m = (int) s.range(0, 12);
	std::vector<int> a((size_t) n), b((size_t) m);
	for(auto& x : a)
		x = (int) s.range(0, 5);
	for(auto& x : b)
		x = (int) s.range(0, 5);
	if(s.chance(0.4))
	{
		b = a;
		if(!b.empty() && s.coin())
			b[(size_t) s.range(0, (long) b.size() - 1)] += 1;
		else if(s.coin())
			b.push_back(1);
	}
	c.nt();
	VLOG(c, "a=" << show(std::vector<double>(a.begin(), a.end())) << " b=" << show(std::vector<double>(b.begin(), b.end())));
	bool eq = false;
	std::vector<int> comb, flat;
	VMUST_RETURN("Lists_Equal/Combine_Lists", eq = Lists_Equal(a, b); comb = Combine_Lists(a, b));
	VCHECK(eq == (a == b), "Lists_Equal=" << eq);
	std::vector<int> ce = a;
	ce.insert(ce.end(), b.begin(), b.end());
	VCHECK(comb == ce, "Combine_Lists");
	// strings and doubles through the same templates
	std::vector<std::string> sa, sb;
	for(int x : a)
		sa.push_back(std::string(1, (char) ('a' + x)));
	for(int x : b)
		sb.push_back(std::string(1, (char) ('a' + x)));
	bool seq = false, cont = false;
	std::vector<int> found;
	int probe = (int) s.range(0, 6);
	VMUST_RETURN("templates on strings", seq = Lists_Equal(sa, sb); cont = List_Contains(sa, std::string(1, (char) ('a' + probe))); found = Find_Indices(a, probe));
	VCHECK(seq == (sa == sb), "Lists_Equal on strings");
	bool ec = false;
	std::vector<int> ef;
	for(size_t i = 0; i < a.size(); i++)
		if(a[i] == probe)
		{
			ec = true;
			ef.push_back((int) i);
		}
	VCHECK(cont == ec, "List_Contains=" << cont << " expected " << ec);
	VCHECK(found == ef, "Find_Indices returned " << found.size() << " indices, expected " << ef.size());
	// nested: Lists_Equal, Flatten_List, Transpose_Lists
	int rows = (int) s.range(1, 5), cols = (int) s.range(1, 5);
	std::vector<std::vector<double>> t((size_t) rows, std::vector<double>((size_t) cols));
	for(auto& r : t)
		for(auto& x : r)
			x = s.small_int(9);
	std::vector<std::vector<double>> tt, t2 = t;
	std::vector<double> fl;
	bool neq = true;
	if(s.coin())
		t2[(size_t) s.range(0, rows - 1)][(size_t) s.range(0, cols - 1)] += 1;
	VMUST_RETURN("nested templates", tt = Transpose_Lists(t); fl = Flatten_List(t); neq = Lists_Equal(t, t2));
	VCHECK(neq == (t == t2), "Lists_Equal on nested lists");
	VCHECK((int) tt.size() == cols && (int) tt[0].size() == rows, "Transpose_Lists shape");
	VCHECK((int) fl.size() == rows * cols, "Flatten_List size");
	for(int i = 0; i < rows; i++)
		for(int j = 0; j < cols; j++)
		{
			VCHECK(tt[(size_t) j][(size_t) i] == t[(size_t) i][(size_t) j], "Transpose_Lists entry");
			VCHECK(fl[(size_t) (i * cols + j)] == t[(size_t) i][(size_t) j], "Flatten_List entry");
		}
	std::vector<std::vector<double>> t3;
	std::vector<double> p(3, 1.0), q = {2, 3, 4};
	VMUST_RETURN("Transpose_Lists(v1,v2)", t3 = Transpose_Lists(p, q));
	VCHECK(t3.size() == 3 && t3[2].size() == 2 && t3[2][1] == 4, "Transpose_Lists of two lists");
	// Sub_List over all 0<=i1<=i2<=size+1: elements i1..min(i2,size-1)
	if(n >= 1)
	{
		int i1 = (int) s.range(0, n - 1);
		int i1_arg = s.chance(0.25) ? -(int) s.range(1, 4) : i1;	 // a negative start index means "from the beginning"
		if(i1_arg < 0)
			i1 = 0;
		unsigned i2 = (unsigned) s.range(i1, n + 1);
		if(s.coin())
			i2 = (unsigned) (s.coin() ? n - 1 : (s.coin() ? n : n + 1));
		if((int) i2 < i1)
			i2 = (unsigned) i1;
		std::vector<int> sub;
		VMUST_RETURN("Sub_List(" << i1_arg << "," << i2 << ") of " << n, sub = Sub_List(a, i1_arg, i2));
		int hi = (int) std::min<unsigned>(i2, (unsigned) n - 1);
		VCHECK((int) sub.size() == hi - i1 + 1, "Sub_List(" << i1 << "," << i2 << ") of a list of " << n << " has " << sub.size() << " elements, expected " << hi - i1 + 1);
		for(int i = i1; i <= hi; i++)
			VCHECK(sub[(size_t) (i - i1)] == a[(size_t) i], "Sub_List element " << i);
	}
	// empty index ranges (start beyond the end, upper index below the start, empty list): no elements - or a diagnostic, never a read
	// outside the list (the sanitizers decide that)
	{
		std::vector<int> e = s.coin() ? std::vector<int> {} : a;
		int m = (int) e.size();
		int j1 = s.coin() ? m + (int) s.range(0, 3) : (int) s.range(1, std::max(1, m));
		unsigned j2 = s.coin() ? (unsigned) s.range(0, std::max(0, j1 - 1)) : (unsigned) s.range(0, m + 2);
		bool empty_range = e.empty() || j1 >= m || (int) j2 < j1;
		std::vector<int> sub;
		::vf::GuardResult g = ::vf::guarded([&]() { sub = Sub_List(e, j1, j2); });
		c.cls(empty_range ? "Sub_List_empty_range" : "Sub_List_regular_range");
		if(empty_range)
		{
			VCHECK(!g.exited || (g.code != 0 && g.output), "Sub_List: exit without failure status or diagnostic");
			if(!g.exited)
				VCHECK(sub.empty(), "Sub_List(" << j1 << "," << j2 << ") of a list of " << m << " returned " << sub.size() << " elements, the index range is empty");
		}
		else
		{
			VCHECK(!g.exited, "Sub_List(" << j1 << "," << j2 << ") of a list of " << m << " terminated: " << g.text);
			int hi = std::min((int) j2, m - 1);
			VCHECK((int) sub.size() == hi - j1 + 1, "Sub_List(" << j1 << "," << j2 << ") of a list of " << m << " has " << sub.size() << " elements");
		}
	}
	// ragged nested lists (rows of different lengths, empty rows): Flatten_List concatenates them, Lists_Equal tells shapes apart
	{
		int rr = (int) s.range(0, 5);
		std::vector<std::vector<int>> rag((size_t) rr), rag2;
		std::vector<int> flat_expect;
		for(auto& row : rag)
		{
			int len = (int) s.range(0, 4);
			for(int k = 0; k < len; k++)
			{
				row.push_back((int) s.range(-3, 3));
				flat_expect.push_back(row.back());
			}
		}
		rag2 = rag;
		bool moved = false;
		// the same elements in the same order, split into rows differently: equal when flattened, not equal as nested lists
		for(size_t i = 0; i + 1 < rag2.size() && !moved; i++)
			if(!rag2[i].empty())
			{
				rag2[i + 1].insert(rag2[i + 1].begin(), rag2[i].back());
				rag2[i].pop_back();
				moved = true;
			}
		std::vector<int> fl1, fl2;
		bool eq = true, eqself = false;
		VMUST_RETURN("templates on ragged nested lists", fl1 = Flatten_List(rag); fl2 = Flatten_List(rag2); eq = Lists_Equal(rag, rag2); eqself = Lists_Equal(rag, rag));
		c.cls("ragged_nested_lists");
		VCHECK(fl1 == flat_expect && fl2 == flat_expect, "Flatten_List of ragged rows: " << fl1.size() << " and " << fl2.size() << " elements, expected " << flat_expect.size());
		VCHECK(eqself, "Lists_Equal(l,l) is false for a ragged nested list");
		VCHECK(eq == (rag == rag2), "Lists_Equal on nested lists with the same elements split into rows differently: " << eq);
	}
}

namespace
{
// Standard errors are square roots of differences of sums: what rounding leaves is an absolute error of order eps*scale^2 in the VARIANCE
// (scale = magnitude of the data), i.e. sqrt(eps)*scale in a standard error that should vanish. Two standard errors are therefore compared
// through their squares: |a^2-b^2| <= rel*b^2 + 256*eps*scale^2. (The fuzzer found constant data 30.5 with unequal weights: 1.5e-7 instead of 0.)
void close_se(Ctx& c, const char* name, double got, double ref, double rel, double scale, const std::string& what)
{
	VCHECK(std::isfinite(got) && got >= 0, what << ": standard error " << got);
	VCLOSE(c, name, got * got, ref * ref, rel * ref * ref + 256 * EPS * scale * scale + 1e-300, what << " (compared through the squares: " << got << " vs " << ref << ")");
}
}	// namespace

VCLAUSE(summary_statistics, 1100, 8000, 160000, "the data are shifted far from their spread (|shift| >= 1e6 spreads) or permuted, or N is even")
{
	Src& s = c.s;
	int N = (int) s.range(2, 200);
	if(s.chance(0.2))
	{
		// general (non-dyadic) data of length 1..200 against long-double references; tolerances allow any summation order and one-pass
		// (Welford) updates: N*eps relative
		N = s.chance(0.15) ? 1 : (int) s.range(1, 200);
		std::vector<double> g((size_t) N);
		double gmax = 0;
		for(auto& v : g)
		{
			v	 = s.mixed(-3, 3);
			gmax = std::max(gmax, std::fabs(v));
		}
		c.cls(N == 1 ? "general_data_single_point" : "general_data");
		VLOG(c, "general data N=" << N << " x=" << show(g, 12));
		long double gs = 0;
		for(double v : g)
			gs += v;
		long double gm = gs / N, gss = 0;
		for(double v : g)
			gss += ((long double) v - gm) * ((long double) v - gm);
		double m = 0, md = 0;
		std::vector<double> cp = g, so = g;
		VMUST_RETURN("Arithmetic_Mean/Median", m = Arithmetic_Mean(g); md = Median(cp));
		VCLOSE(c, "general_mean", m, (double) gm, (4 + 2 * N) * EPS * gmax + 1e-300, "Arithmetic_Mean of general data");
		std::sort(so.begin(), so.end());
		double emed = N % 2 ? so[(size_t) N / 2] : (so[(size_t) N / 2 - 1] + so[(size_t) N / 2]) / 2;
		VCLOSE(c, "general_median", md, emed, 2 * EPS * std::fabs(emed), "Median of general data (N=" << N << ")");
		std::vector<DataPoint> dp;
		long double sw = 0, swx = 0;
		for(int i = 0; i < N; i++)
		{
			double wi = std::pow(10.0, s.uniform(-3, 3));
			dp.push_back(DataPoint(g[(size_t) i], wi));
			sw += wi;
			swx += (long double) wi * g[(size_t) i];
		}
		std::vector<double> wa, wp;
		std::vector<DataPoint> dperm = dp;
		for(int i = N - 1; i > 0; i--)
			std::swap(dperm[(size_t) i], dperm[(size_t) s.range(0, i)]);
		VMUST_RETURN("Weighted_Average", wa = Weighted_Average(dp); wp = Weighted_Average(dperm));
		VCHECK(wa.size() == 2 && wp.size() == 2, "Weighted_Average returns {average, standard error}");
		long double absw = 0;
		for(auto& d : dp)
			absw += fabsl((long double) d.weight * d.value);
		double wtol = (8 + 4 * N) * EPS * (double) (absw / sw) + 1e-300;
		VCLOSE(c, "general_weighted_mean", wa[0], (double) (swx / sw), wtol, "sum(w x)/sum(w) with weights over six decades");
		VCLOSE(c, "general_weighted_mean_permutation", wp[0], wa[0], 2 * wtol, "weighted mean of a permutation of the data points");
		if(N >= 2)
		{
			double v = 0, sd = 0;
			VMUST_RETURN("Variance/Standard_Deviation", v = Variance(g); sd = Standard_Deviation(g));
			long double var = gss / (N - 1);
			// the mean carries up to N*eps*|x|max of rounding, which enters every deviation: (delta)^2 and 2*delta*s in the variance, delta in
			// the standard deviation (three equal values -999.99999999999795 have a mean one ulp off and a standard deviation of 1.4e-13)
			double dm = 2.0 * N * EPS * gmax, sdr = std::sqrt((double) var);
			VCLOSE(c, "general_variance", v, (double) var, (16 + 4 * N) * EPS * (double) var + 4 * dm * dm + 4 * dm * sdr + 1e-300, "Variance of general data");
			VCLOSE(c, "general_standard_deviation", sd, sdr, (16 + 4 * N) * EPS * sdr + 4 * dm + 1e-300, "Standard_Deviation of general data");
		}
		return;
	}
	// dyadic data: sums and shifts by powers of two are exact, so the laws can be asserted tightly
	std::vector<double> x((size_t) N);
	for(auto& v : x)
		v = (double) s.range(-256, 256) / 8.0;
	if(s.chance(0.12))
	{
		// (nearly) constant data: the spread is zero or a few eighths around a common value (every variance is a small difference of large sums)
		double base = (double) s.range(-256, 256) / 8.0;
		int spread	= s.coin() ? 0 : (int) s.range(1, 3);
		for(auto& v : x)
			v = base + (spread ? (double) s.range(-spread, spread) / 8.0 : 0.0);
		c.cls(spread ? "nearly_constant_data" : "constant_data");
	}
	double shift = s.coin() ? 0.0 : s.sign() * std::ldexp(1.0, (int) s.range(0, 34));
	double scal	 = s.sign() * std::ldexp(1.0, (int) s.range(-10, 10));
	std::vector<double> y((size_t) N), z((size_t) N), perm = x;
	for(int i = 0; i < N; i++)
	{
		y[(size_t) i] = x[(size_t) i] + shift;
		z[(size_t) i] = x[(size_t) i] * scal;
	}
	for(int i = N - 1; i > 0; i--)
		std::swap(perm[(size_t) i], perm[(size_t) s.range(0, i)]);
	if(std::fabs(shift) >= 1e6 * 32 || N % 2 == 0)
		c.nt();
	VLOG(c, "N=" << N << " shift=" << shift << " scale=" << scal << " x=" << show(x, 16));
	double mx = 0, my = 0, mz = 0, mp = 0, vx = 0, vy = 0, vz = 0, vp = 0, sx = 0, sy = 0;
	VMUST_RETURN("Arithmetic_Mean/Variance/Standard_Deviation", mx = Arithmetic_Mean(x); my = Arithmetic_Mean(y); mz = Arithmetic_Mean(z); mp = Arithmetic_Mean(perm); vx = Variance(x); vy = Variance(y); vz = Variance(z); vp = Variance(perm);
				 sx = Standard_Deviation(x); sy = Standard_Deviation(y));
	// references in long double
	long double sum = 0;
	for(double v : x)
		sum += v;
	long double mean = sum / N, ss = 0;
	for(double v : x)
		ss += ((long double) v - mean) * ((long double) v - mean);
	long double var = ss / (N - 1);
	double big = std::fabs(shift) + 32;
	double mtol = (4 + N) * EPS * 32;	// an incrementally updated mean is as good as sum/N
	VCLOSE(c, "mean", mx, (double) mean, mtol, "Arithmetic_Mean");
	VCLOSE(c, "mean_translation", my, (double) (mean + shift), (4 + N) * EPS * big, "mean(x+c)=mean(x)+c");
	VCLOSE(c, "mean_scaling", mz, (double) (mean * scal), mtol * std::fabs(scal), "mean(a x)=a mean(x)");
	VCLOSE(c, "mean_permutation", mp, mx, mtol, "mean of a permutation");
	// (any summation order, one- or two-pass: N*eps relative; the fuzzer found 17 eps at N=125 for the two-pass formula itself)
	double vtol = (16 + 2 * N) * EPS * (double) var + 1e-300;
	VCLOSE(c, "variance", vx, (double) var, vtol, "Variance (N-1 in the denominator)");
	// two-pass variance of shifted data: the mean carries eps*|c|, which enters as N*(eps*c)^2/(N-1) plus the cross term
	double dl = 2 * EPS * big;
	VCLOSE(c, "variance_translation", vy, (double) var, vtol + 4 * dl * dl + 4 * dl * std::sqrt((double) var), "Var(x+c)=Var(x) for c=" << shift);
	VCLOSE(c, "variance_scaling", vz, (double) var * scal * scal, vtol * scal * scal, "Var(a x)=a^2 Var(x)");
	VCLOSE(c, "variance_permutation", vp, vx, vtol, "variance of a permutation");
	VCLOSE(c, "standard_deviation", sx, std::sqrt((double) var), (16 + N) * EPS * std::sqrt((double) var) + 1e-300, "Standard_Deviation = sqrt(Variance)");
	VCLOSE(c, "standard_deviation_translation", sy, sx, (4 * dl * dl + 4 * dl * std::sqrt((double) var)) / std::max(2 * std::sqrt((double) var), 1e-300) + 16 * EPS * sx + (var == 0 ? 2 * dl : 0), "Standard_Deviation(x+c)");
	// median against sorting (the function may reorder its argument)
	std::vector<double> cp = perm, cy = y, so = x;
	double med = 0, medy = 0;
	VMUST_RETURN("Median", med = Median(cp); medy = Median(cy));
	std::sort(so.begin(), so.end());
	double emed = N % 2 ? so[(size_t) N / 2] : (so[(size_t) N / 2 - 1] + so[(size_t) N / 2]) / 2;
	VCHECK(med == emed, "Median=" << med << " expected " << emed << " (N=" << N << ")");
	VCHECK(medy == emed + shift, "Median(x+c)=" << medy << " expected " << emed + shift);
	std::sort(cp.begin(), cp.end());
	VCHECK(cp == so, "Median changed the multiset of its argument");
	// weighted average: equal weights give the plain mean with standard error s/sqrt(N)
	double w = std::ldexp(1.0, (int) s.range(-4, 4));
	std::vector<DataPoint> dp, dps;
	for(int i = 0; i < N; i++)
	{
		dp.push_back(DataPoint(x[(size_t) i], w));
		dps.push_back(DataPoint(y[(size_t) i], w));
	}
	std::vector<double> wa, was;
	VMUST_RETURN("Weighted_Average", wa = Weighted_Average(dp); was = Weighted_Average(dps));
	VCHECK(wa.size() == 2, "Weighted_Average returns {average, standard error}");
	VCLOSE(c, "weighted_average_equal_weights", wa[0], (double) mean, (8 + N) * EPS * 32, "equal weights: the plain mean");
	VCLOSE(c, "weighted_standard_error", wa[1], std::sqrt((double) var / N), 64 * EPS * std::sqrt((double) var / N) + 1e-300, "equal weights: standard error s/sqrt(N)");
	VCLOSE(c, "weighted_average_translation", was[0], (double) (mean + shift), 8 * EPS * big, "weighted average of shifted data");
	// genuinely different weights: average against the definition
	std::vector<DataPoint> dq;
	long double sw = 0, swx = 0;
	for(int i = 0; i < N; i++)
	{
		double wi = (double) s.range(1, 16) / 4.0;
		dq.push_back(DataPoint(x[(size_t) i], wi));
		sw += wi;
		swx += (long double) wi * x[(size_t) i];
	}
	std::vector<double> wq;
	VMUST_RETURN("Weighted_Average", wq = Weighted_Average(dq));
	VCLOSE(c, "weighted_average_definition", wq[0], (double) (swx / sw), (8 + N) * EPS * 32, "sum(w x)/sum(w)");
	VCHECK(wq[1] >= 0 && std::isfinite(wq[1]), "weighted standard error " << wq[1]);
	// unequal weights: Cochran's ratio-variance formula in long double, and its translation / scaling behaviour
	{
		long double xw = swx / sw, wb = sw / N, s1 = 0, s2 = 0, s3 = 0;
		for(auto& d : dq)
		{
			long double a1 = (long double) d.weight * d.value - wb * xw, a2 = (long double) d.weight - wb;
			s1 += a1 * a1;
			s2 += a2 * a1;
			s3 += a2 * a2;
		}
		long double se2 = (long double) N / (N - 1) / (sw * sw) * (s1 - 2 * xw * s2 + xw * xw * s3);
		double se = (double) sqrtl(std::max(se2, 0.0L));
		close_se(c, "weighted_standard_error_definition", wq[1], se, 4e-9, 32, "standard error of the weighted mean (Cochran) with unequal weights");
		std::vector<DataPoint> dsh, dsc;
		double c2 = std::ldexp(1.0, (int) s.range(0, 8)) * s.sign(), a2 = std::ldexp(1.0, (int) s.range(-6, 6)) * s.sign();
		for(auto& d : dq)
		{
			dsh.push_back(DataPoint(d.value + c2, d.weight));
			dsc.push_back(DataPoint(d.value * a2, d.weight));
		}
		std::vector<double> wsh, wsc;
		VMUST_RETURN("Weighted_Average", wsh = Weighted_Average(dsh); wsc = Weighted_Average(dsc));
		{
			std::ostringstream w1, w2;
			w1 << "standard error of the weighted mean must not change under x -> x + " << c2;
			w2 << "standard error of the weighted mean must scale with |a| under x -> a x, a=" << a2;
			close_se(c, "weighted_se_translation", wsh[1], wq[1], 4e-9, 32 + std::fabs(c2), w1.str());
			close_se(c, "weighted_se_scaling", wsc[1], std::fabs(a2) * wq[1], 4e-10, 32 * std::fabs(a2), w2.str());
		}
		VCLOSE(c, "weighted_mean_translation_unequal", wsh[0], wq[0] + c2, 16 * EPS * (32 + std::fabs(c2)), "weighted mean of shifted data (unequal weights)");
		VCLOSE(c, "weighted_mean_scaling_unequal", wsc[0], wq[0] * a2, 16 * EPS * 32 * std::fabs(a2), "weighted mean of scaled data (unequal weights)");
		// permutation of the data points (values travel with their weights)
		std::vector<DataPoint> dpm = dq;
		for(int i = N - 1; i > 0; i--)
			std::swap(dpm[(size_t) i], dpm[(size_t) s.range(0, i)]);
		std::vector<double> wpm;
		VMUST_RETURN("Weighted_Average", wpm = Weighted_Average(dpm));
		VCLOSE(c, "weighted_mean_permutation", wpm[0], wq[0], 16 * EPS * 32, "weighted mean of permuted data points");
		close_se(c, "weighted_se_permutation", wpm[1], wq[1], 4e-9, 32, "standard error of the weighted mean of permuted data points");
	}
}
