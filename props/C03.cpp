// C03 Adaptive Simpson integration meets its error request and is exact on quintics
#include "../engine/harness.hpp"

#include <functional>

#include "libphysica/Integration.hpp"

using namespace vf;
const char* const vf::kPropertyId = "C03";

namespace
{
struct Probe
{
	std::function<double(double)> f;
	long calls	= 0;
	double xmin = 1e308, xmax = -1e308;
	double lo = 0, hi = 0;	 // the interval (set by the caller): the deepest bisection level of any abscissa is tracked
	int deepest = 0;
	double operator()(double x)
	{
		calls++;
		xmin = std::min(xmin, x);
		xmax = std::max(xmax, x);
		if(hi > lo)
		{
			long double t = ((long double) x - lo) / ((long double) hi - lo);
			int lev		  = 0;
			while(lev < 40 && fabsl(t - roundl(t)) > 1e-7L)
			{
				t *= 2;
				lev++;
			}
			deepest = std::max(deepest, lev);
		}
		return f(x);
	}
};
struct Run
{
	double value = 0;
	long calls	 = 0;
	double xmin = 0, xmax = 0;
	bool warned = false;
	int deepest = 0;   // deepest bisection level at which the integrand was evaluated (level n: odd multiples of width/2^n)
	std::string text;
};
Run integrate(const std::function<double(double)>& f, double a, double b, double eps, int depth, bool& exited)
{
	Probe P {f};
	P.lo = std::min(a, b);
	P.hi = std::max(a, b);
	Run r;
	GuardResult g = guarded([&]() { r.value = libphysica::Integrate(std::ref(P), a, b, eps, depth); });
	exited	 = g.exited;
	r.calls	 = P.calls;
	r.xmin	 = P.xmin;
	r.xmax	 = P.xmax;
	r.warned = g.text.find("did not converge") != std::string::npos;
	r.deepest = P.deepest;
	r.text	 = g.text;
	return r;
}
void common_checks(Ctx& c, const std::function<double(double)>& f, double a, double b, double eps, int depth, const Run& r)
{
	double lo = std::min(a, b), hi = std::max(a, b);
	if(r.calls > 0)
		VCHECK(r.xmin >= lo && r.xmax <= hi, "integrand evaluated outside the closed interval: abscissae in [" << r.xmin << "," << r.xmax << "], interval [" << lo << "," << hi << "]");
	// a non-convergence warning means the recursion met its depth limit: level depth+2 must have been evaluated (a warning raised one level
	// early, or for no reason, would otherwise silence the accuracy assertion of the caller)
	if(r.warned && depth + 2 <= 38 && (hi - lo) > 1e-290)
		VCHECK(r.deepest >= depth + 2, "non-convergence warning although the deepest evaluated bisection level is " << r.deepest << ", the limit for depth " << depth << " is " << depth + 2);
	long bound = (1L << std::min(depth + 2, 40)) + 1;
	VCHECK(r.calls <= bound, "integrand evaluated " << r.calls << " times, bound 2^(depth+2)+1 = " << bound << " for depth " << depth);
	// swapping the limits negates exactly; the sign of epsilon is irrelevant
	bool ex = false;
	Run rr = integrate(f, b, a, eps, depth, ex);
	VCHECK(!ex, "Integrate terminated the process on reversed limits");
	VCHECK(same_bits(rr.value, -r.value) || (r.value == 0 && rr.value == 0), "Integrate(b,a)=" << rr.value << " is not the exact negative of Integrate(a,b)=" << r.value);
	Run rn = integrate(f, a, b, -eps, depth, ex);
	VCHECK(!ex && same_bits(rn.value, r.value), "result depends on the sign of epsilon: " << rn.value << " vs " << r.value);
	VCHECK(rn.calls == r.calls && rr.calls == r.calls, "evaluation count depends on orientation / sign of epsilon: " << r.calls << "," << rr.calls << "," << rn.calls);
}
}	// namespace

VCLAUSE(polynomials, 40, 8000, 200000, "degree >= 4, or the recursion actually happened (more than 5 evaluations), or the limits are reversed")
{
	Src& s	= c.s;
	int deg = (int) s.range(0, 5);
	std::vector<double> cf((size_t) deg + 1);
	for(auto& v : cf)
		v = s.chance(0.15) ? 0.0 : s.sign() * std::pow(10.0, s.uniform(-3, 3));
	if(cf[(size_t) deg] == 0)
		cf[(size_t) deg] = 1.0;
	double w	  = std::pow(10.0, s.uniform(-6, 3));
	double centre = s.pick({1, 1}) == 0 ? 0.0 : s.sign() * w * std::pow(10.0, s.uniform(-2, 3));
	double a = centre - w * s.unit(), b = a + w;
	if(!(a < b))
		throw Discard();
	bool rev = s.coin();
	int depth = (int) s.range(0, 25);
	double eps = s.sign() * std::pow(10.0, s.uniform(-18, 2));
	// polynomial in t = x - centre
	auto f = [=](double x) {
		double t = x - centre, v = 0;
		for(int k = deg; k >= 0; k--)
			v = v * t + cf[(size_t) k];
		return v;
	};
	// exact integral in the centred variable (long double) and the rounding scale S = sum |c_k| max|t|^k |b-a|
	long double ta = (long double) a - centre, tb = (long double) b - centre, exact = 0, S = 0;
	long double tm = std::max(fabsl(ta), fabsl(tb));
	for(int k = 0; k <= deg; k++)
	{
		exact += (long double) cf[(size_t) k] * (powl(tb, k + 1) - powl(ta, k + 1)) / (k + 1);
		S += fabsl((long double) cf[(size_t) k]) * powl(tm, k) * (tb - ta);
	}
	// cost guard: an unattainable epsilon drives the recursion to the bottom (2^(depth+2) evaluations)
	if(depth > 13 && std::fabs(eps) < 1e-7 * (double) S)
		depth = 13 - (int) s.range(0, 5);
	VLOG(c, "poly deg " << deg << " coefficients " << show(cf) << " about " << centre << " on [" << a << "," << b << "] reversed=" << rev << " eps=" << eps << " depth=" << depth);
	bool ex = false;
	Run r = integrate(f, rev ? b : a, rev ? a : b, eps, depth, ex);
	VCHECK(!ex, "Integrate terminated the process: " << r.text);
	if(deg >= 4 || r.calls > 5 || rev)
		c.nt();
	c.cls(r.calls > 5 ? "recursed" : "top_level_only");
	c.cls(rev ? "reversed" : "ordered");
	double cond = 1 + std::max(std::fabs(a), std::fabs(b)) / w;
	double tol	= 16.0 * (8 + depth) * EPS * (double) S * cond;
	VCLOSE(c, "quintic_exactness", r.value, (rev ? -1.0 : 1.0) * (double) exact, tol, "polynomial of degree " << deg << " must be integrated exactly for every epsilon and depth (evaluations " << r.calls << ")");
	common_checks(c, f, rev ? b : a, rev ? a : b, eps, depth, r);
	// equal limits
	Run z = integrate(f, a, a, eps, depth, ex);
	VCHECK(!ex && z.value == 0.0 && z.calls == 0, "Integrate(a,a)=" << z.value << " with " << z.calls << " evaluations");
}

VCLAUSE(regular_families, 40, 6000, 150000, "the requested accuracy forces at least two levels of recursion (more than 9 evaluations)")
{
	Src& s	= c.s;
	int fam = (int) s.range(0, 4);
	std::function<double(double)> f;
	double a, b;
	long double exact;
	std::ostringstream d;
	d << std::setprecision(17);
	switch(fam)
	{
		case 0:
		{	// exp(w x): f'''' ratio = exp(|w| L) <= 4
			double w = s.sign() * std::pow(10.0, s.uniform(-3, 3));
			double L = std::log(4.0) / std::fabs(w) * s.uniform(0.05, 0.999);
			a		 = s.uniform(-3, 3) / std::fabs(w);
			b		 = a + L;
			f		 = [=](double x) { return std::exp(w * x); };
			exact	 = expl((long double) w * a) * expm1l((long double) w * ((long double) b - a)) / w;
			d << "exp(" << w << " x)";
			break;
		}
		case 1:
		{	// cosh(w x): f'''' = w^4 cosh(wx), ratio cosh(max)/cosh(min) <= 4
			double w  = std::pow(10.0, s.uniform(-3, 3));
			double m  = s.uniform(-3, 3) / w;
			double L  = 1.2 / w * s.uniform(0.05, 0.999);	// cosh ratio over a length 1.2/w is at most e^1.2 = 3.3
			a		  = m - L / 2;
			b		  = m + L / 2;
			f		  = [=](double x) { return std::cosh(w * x); };
			exact	  = 2 * coshl((long double) w * ((long double) a + b) / 2) * sinhl((long double) w * ((long double) b - a) / 2) / w;
			d << "cosh(" << w << " x)";
			break;
		}
		case 2:
		{	// (x+s)^-k on x+s>0: f'''' ~ (x+s)^-(k+4), ratio ((b+s)/(a+s))^(k+4) <= 4
			int k	 = (int) s.range(1, 6);
			double u0 = std::pow(10.0, s.uniform(-3, 3));
			double q  = std::pow(4.0, 1.0 / (k + 4)) ;
			double u1 = u0 * (1 + (q - 1) * s.uniform(0.05, 0.999));
			double sh = s.uniform(-5, 5);
			a		  = u0 - sh;
			b		  = u1 - sh;
			f		  = [=](double x) { return std::pow(x + sh, -k); };
			long double la = (long double) a + sh, lb = (long double) b + sh;
			exact		   = k == 1 ? log1pl((lb - la) / la) : (powl(la, 1 - k) - powl(lb, 1 - k)) / (k - 1);
			d << "(x+" << sh << ")^-" << k;
			break;
		}
		case 4:
		{	// f'''' = A (2.5 + 1.5 sin(W t)) in [A,4A] with many periods inside the interval: the fourth derivative keeps its sign and varies by
			// four, but the Richardson correction of the leaves gains nothing - the family on which the bound 4*epsilon is sharpest
			double L = std::pow(10.0, s.uniform(-2, 2)), x0 = s.uniform(-2, 2) * L, A = std::pow(10.0, s.uniform(-3, 3)) / (L * L * L * L);
			double W = std::pow(10.0, s.uniform(0.5, 2.5)) / L;
			a		 = x0 + L * s.uniform(-1, 1);
			b		 = a + L * s.uniform(0.2, 2);
			f		 = [=](double x) { double t = x - x0; return A * (2.5 * t * t * t * t / 24 + 1.5 * std::sin(W * t) / (W * W * W * W)); };
			auto F	 = [=](long double x) { long double t = x - x0; return (long double) A * (2.5L * t * t * t * t * t / 120 - 1.5L * cosl((long double) W * t) / ((long double) W * W * W * W * W)); };
			exact	 = F(b) - F(a);
			d << A << "*(2.5 t^4/24 + 1.5 sin(" << W << " t)/W^4), t=x-" << x0;
			break;
		}
		default:
		{	// x^p, p>4: f'''' ~ x^(p-4), ratio (b/a)^(p-4) <= 4
			double p  = s.uniform(4.2, 12);
			double x0 = std::pow(10.0, s.uniform(-2, 2));
			double q  = std::pow(4.0, 1.0 / (p - 4));
			q		  = std::min(q, 50.0);
			double x1 = x0 * (1 + (q - 1) * s.uniform(0.05, 0.999));
			a		  = x0;
			b		  = x1;
			f		  = [=](double x) { return std::pow(x, p); };
			exact	  = (powl((long double) b, (long double) p + 1) - powl((long double) a, (long double) p + 1)) / ((long double) p + 1);
			d << "x^" << p;
			break;
		}
	}
	if(!(a < b) || !std::isfinite((double) exact) || exact == 0)
		throw Discard();
	bool rev   = s.coin();
	double rel = std::pow(10.0, s.uniform(-13, -1));
	double eps = std::fabs((double) exact) * rel;
	int depth  = rel < 1e-10 ? (int) s.range(8, 14) : (int) s.range(8, 20);
	VLOG(c, d.str() << " on [" << a << "," << b << "] reversed=" << rev << " eps=" << eps << " (relative " << rel << ") depth=" << depth << " exact=" << (double) exact);
	bool ex = false;
	Run r = integrate(f, rev ? b : a, rev ? a : b, eps, depth, ex);
	VCHECK(!ex, "Integrate terminated the process: " << r.text);
	if(r.calls > 9)
		c.nt();
	c.cls(r.warned ? "non_convergence_warning" : "converged");
	static const char* fn[] = {"fam_exp", "fam_cosh", "fam_inverse_power", "fam_power", "fam_oscillating_fourth_derivative"};
	c.cls(fn[fam]);
	if(!r.warned)
	{
		double tol = 4 * std::fabs(eps) + 64 * EPS * (8 + depth) * std::fabs((double) exact) * (1 + std::max(std::fabs(a), std::fabs(b)) / (b - a));
		VCLOSE(c, "error_within_4_epsilon", r.value, (rev ? -1.0 : 1.0) * (double) exact, tol, "estimator-regular integrand " << d.str() << ": |error| must be <= 4*epsilon + rounding (evaluations " << r.calls << ")");
	}
	common_checks(c, f, rev ? b : a, rev ? a : b, eps, depth, r);
}

// "any epsilon": zero and negative zero (the recursion runs to the depth limit and stays within the evaluation bound); "equal limits give
// zero" also where the integrand is not finite at that point
VCLAUSE(degenerate_requests, 12, 4000, 80000, "epsilon is zero, or the limits are equal at a point where the integrand is not finite")
{
	Src& s = c.s;
	c.nt();
	if(s.coin())
	{
		int depth = (int) s.range(0, 9);
		double a = s.mixed(-3, 3), w = std::pow(10.0, s.uniform(-6, 3)), b = a + w;
		if(!(a < b))
			throw Discard();
		double cf[6];
		for(auto& v : cf)
			v = s.small_int(5);
		auto f = [=](double x) { double t = (x - a) / w, v = 0; for(int k = 5; k >= 0; k--) v = v * t + cf[k]; return v; };
		long double exact = 0;
		for(int k = 0; k <= 5; k++)
			exact += (long double) cf[k] / (k + 1);
		exact *= w;
		double eps = s.coin() ? 0.0 : -0.0;
		c.cls("epsilon_zero");
		VLOG(c, "quintic on [" << a << "," << b << "] eps=" << eps << " depth=" << depth);
		bool ex = false;
		Run r = integrate(f, a, b, eps, depth, ex);
		VCHECK(!ex, "Integrate terminated the process for epsilon = 0: " << r.text);
		long bound = (1L << (depth + 2)) + 1;
		VCHECK(r.calls <= bound, "epsilon = 0: " << r.calls << " evaluations, bound " << bound);
		// (the abscissae a + t w carry eps*|a| of rounding, i.e. eps*|a|/w in t: the conditioning factor of the other clauses)
		VCLOSE(c, "quintic_exact_epsilon_zero", r.value, (double) exact, 64 * EPS * (8 + depth) * 36 * w * (1 + std::max(std::fabs(a), std::fabs(b)) / w), "quintic with epsilon = 0 at depth " << depth);
		common_checks(c, f, a, b, eps, depth, r);
	}
	else
	{
		double a = s.mixed(-3, 3);
		int kind = (int) s.range(0, 2);
		std::function<double(double)> f;
		if(kind == 0)
			f = [=](double x) { return 1.0 / (x - a); };
		else if(kind == 1)
			f = [=](double x) { return std::log(x - a); };
		else
			f = [=](double x) { return std::sqrt(a - x) / (x - a); };
		c.cls("equal_limits_at_a_singular_point");
		VLOG(c, "equal limits " << a << " at a point where the integrand (kind " << kind << ") is not finite");
		double v = 1;
		VMUST_RETURN("Integrate with equal limits", v = libphysica::Integrate(f, a, a, std::pow(10.0, s.uniform(-12, 0)), (int) s.range(0, 20)));
		VCHECK(v == 0.0, "equal limits must give zero, got " << v);
	}
}

VCLAUSE(arbitrary_integrands, 60, 6000, 150000, "the recursion reaches the depth limit on some branch (non-convergence warning) while another branch converges")
{
	Src& s	= c.s;
	int kind = (int) s.range(0, 4);
	double a = s.mixed(-3, 3), w = std::pow(10.0, s.uniform(-6, 3)), b = a + w;
	if(!(a < b))
		throw Discard();
	double k1 = a + w * s.unit(), k2 = a + w * s.unit(), om = std::pow(10.0, s.uniform(0, 3)) / w;
	std::function<double(double)> f;
	switch(kind)
	{
		case 0: f = [=](double x) { return std::fabs(x - k1); }; break;
		case 1: f = [=](double x) { return x < k1 ? 1.0 : (x < k2 ? -2.0 : 0.5); }; break;
		case 2: f = [=](double x) { return std::sin(om * (x - a)); }; break;
		case 3: f = [=](double x) { return std::sqrt(std::fabs(x - k1)) + (x > k2 ? 3.0 : 0.0); }; break;
		default: f = [=](double x) { return 1.0 / (1e-3 * w + std::fabs(x - k1)); }; break;
	}
	int depth  = (int) s.range(0, 12);
	double eps = s.sign() * std::pow(10.0, s.uniform(-18, 2)) * w;
	bool rev   = s.coin();
	VLOG(c, "integrand kind " << kind << " on [" << a << "," << b << "] kinks " << k1 << "," << k2 << " omega " << om << " eps=" << eps << " depth=" << depth << " reversed=" << rev);
	bool ex = false;
	Run r = integrate(f, rev ? b : a, rev ? a : b, eps, depth, ex);
	VCHECK(!ex, "Integrate terminated the process: " << r.text);
	long full = (1L << (depth + 2)) + 1;
	if(r.warned && r.calls < full)
		c.nt();
	c.cls(r.warned ? "non_convergence_warning" : "converged");
	c.cls(r.calls == full ? "full_tree" : "partial_tree");
	common_checks(c, f, rev ? b : a, rev ? a : b, eps, depth, r);
	VCHECK(std::isfinite(r.value), "non-finite result " << r.value);
}
