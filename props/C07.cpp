// C07 Every distribution's density, CDF, quantile and likelihood are mutually coherent
#include "../engine/harness.hpp"
#include "../engine/refmath.hpp"

#include <functional>

#include "libphysica/Statistics.hpp"

using namespace vf;
using namespace libphysica;
const char* const vf::kPropertyId = "C07";

namespace
{
struct Dist
{
	std::string name;
	std::function<double(double)> pdf, cdf;
	double lo, hi;					  // support (lo may be -inf)
	double centre, scale;			  // where the mass is and how wide
	std::vector<double> breakpoints;  // where pdf/cdf change branch
	double atom_at_lo = 0;			  // probability mass sitting at lo (chi-bar dof-0 component)
	double acc		  = 1e-12;		  // accuracy class of the underlying special function
	double singular_below = 0;		  // pdf has an integrable singularity at lo: quadrature only for a >= this
	bool grade_at_lo	  = false;	  // density ~ x^q with non-integer q at lo: grade the quadrature panels geometrically towards lo
};
long double quad_cb(long double x, void* ctx) { return (long double) (*(std::function<double(double)>*) ctx)((double) x); }
// integral of the library's pdf over [a,b] by composite 20-point Gauss-Legendre in long double, panels of at most half a scale, split at breakpoints
long double integrate_pdf(Dist& D, double a, double b)
{
	std::vector<double> cuts = {a};
	for(double bp : D.breakpoints)
		if(bp > a && bp < b)
			cuts.push_back(bp);
	cuts.push_back(b);
	// an integrable singularity at the lower support end needs panels graded geometrically towards it
	if(D.grade_at_lo)
		for(int j = -6; j <= 60; j++)
		{
			double cp = D.lo + D.scale * std::ldexp(1.0, -j);
			if(cp > a && cp < b)
				cuts.push_back(cp);
		}
	std::sort(cuts.begin(), cuts.end());
	long double sum = 0;
	for(size_t i = 0; i + 1 < cuts.size(); i++)
	{
		double l = cuts[i], r = cuts[i + 1];
		// restrict to where the density is not negligible: +-45 scales around the centre
		double ll = std::max(l, D.centre - 45 * D.scale), rr = std::min(r, D.centre + 45 * D.scale);
		if(!(rr > ll))
			continue;
		int panels = (int) std::min(20000.0, std::max(4.0, std::ceil((rr - ll) / (0.5 * D.scale))));
		sum += ref::integrate(quad_cb, &D.pdf, ll, rr, panels);
	}
	return sum;
}
Dist gen_dist(Src& s)
{
	Dist D;
	int fam = s.pick({2, 3, 4, 2, 2, 2});
	double inf = std::numeric_limits<double>::infinity();
	switch(fam)
	{
		case 0:
		{
			double a = s.mixed(-3, 3), w = std::pow(10.0, s.uniform(-3, 3));
			D.name = "uniform";
			D.pdf  = [=](double x) { return PDF_Uniform(x, a, a + w); };
			D.cdf  = [=](double x) { return CDF_Uniform(x, a, a + w); };
			D.lo = a;
			D.hi = a + w;
			D.centre = a + w / 2;
			D.scale	 = w;
			D.breakpoints = {a, a + w};
			break;
		}
		case 1:
		{
			double mu = s.mixed(-3, 3), sg = std::pow(10.0, s.uniform(-3, 3));
			D.name = "normal";
			D.pdf  = [=](double x) { return PDF_Gauss(x, mu, sg); };
			D.cdf  = [=](double x) { return CDF_Gauss(x, mu, sg); };
			D.lo = -inf;
			D.hi = inf;
			D.centre = mu;
			D.scale	 = sg;
			break;
		}
		case 2:
		{
			double dof = s.pick({2, 2, 1}) == 0 ? s.uniform(0.5, 10) : (s.coin() ? std::pow(10.0, s.uniform(std::log10(0.5), std::log10(400.0))) : (double) s.range(1, 400));
			D.name = "chi_square";
			D.pdf  = [=](double x) { return PDF_Chi_Square(x, dof); };
			D.cdf  = [=](double x) { return CDF_Chi_Square(x, dof); };
			D.lo = 0;
			D.hi = inf;
			D.centre = dof;
			D.scale	 = std::sqrt(2 * dof) + 1;
			D.breakpoints = {0.0, dof + 2.0};	// support boundary; x/2 = dof/2+1 is the series/continued-fraction switch of GammaP
			D.acc = dof / 2 <= 100 ? 2e-12 : 2e-3;
			D.grade_at_lo = true;
			if(dof < 2)
				D.singular_below = 1e-2;
			break;
		}
		case 3:
		{
			int k = (int) s.range(1, 8);
			std::vector<double> w((size_t) k + 1);
			double tot = 0;
			for(auto& v : w)
			{
				v = s.chance(0.2) ? 0.0 : s.unit();
				tot += v;
			}
			if(tot == 0)
			{
				w[0] = 1;
				tot	 = 1;
			}
			for(auto& v : w)
				v /= tot;
			D.name = "chi_bar_square";
			D.pdf  = [=](double x) { return PDF_Chi_Bar_Square(x, w); };
			D.cdf  = [=](double x) { return CDF_Chi_Bar_Square(x, w); };
			D.lo = 0;
			D.hi = inf;
			D.centre = k / 2.0;
			D.scale	 = std::sqrt(2.0 * k) + 1;
			D.breakpoints = {0.0};
			for(int d = 1; d <= k; d++)
				D.breakpoints.push_back(d + 2.0);
			D.atom_at_lo	 = w[0];
			D.grade_at_lo	 = true;
			D.acc			 = 2e-12 * (k + 1);
			D.singular_below = (k >= 1 && w[1] > 0) ? 1e-2 : 0;
			break;
		}
		case 4:
		{
			double mean = std::pow(10.0, s.uniform(-3, 3));
			D.name = "exponential";
			D.pdf  = [=](double x) { return PDF_Exponential(x, mean); };
			D.cdf  = [=](double x) { return CDF_Exponential(x, mean); };
			D.lo = 0;
			D.hi = inf;
			D.centre = mean;
			D.scale	 = mean;
			D.breakpoints = {0.0};
			break;
		}
		default:
		{
			double a = std::pow(10.0, s.uniform(-3, 3));
			D.name = "maxwell_boltzmann";
			D.pdf  = [=](double x) { return PDF_Maxwell_Boltzmann(x, a); };
			D.cdf  = [=](double x) { return CDF_Maxwell_Boltzmann(x, a); };
			D.lo = 0;
			D.hi = inf;
			D.centre = 1.6 * a;
			D.scale	 = a;
			D.breakpoints = {0.0};
			break;
		}
	}
	return D;
}
// argument: support boundaries, far tails, both sides of every branch, random in the bulk
double gen_arg(Src& s, const Dist& D)
{
	switch(s.pick({5, 2, 2, 1}))
	{
		case 0: return D.centre + D.scale * s.uniform(-4, 6);
		case 1:
		{
			double bp = D.breakpoints.empty() ? D.centre : D.breakpoints[(size_t) s.range(0, (long) D.breakpoints.size() - 1)];
			switch(s.pick({1, 1, 1}))
			{
				case 0: return bp;
				case 1: return std::nextafter(bp, s.coin() ? 1e308 : -1e308);
				default: return bp + s.sign() * D.scale * std::pow(10.0, s.uniform(-9, -1));
			}
		}
		case 2: return D.centre + s.sign() * D.scale * std::pow(10.0, s.uniform(0.7, 1.6));	  // far tails (5..40 scales)
		default: return D.centre + s.sign() * D.scale * std::pow(10.0, s.uniform(2, 6));	  // very far
	}
}
}	// namespace

VCLAUSE(continuous, 60, 10000, 200000, "the argument pair straddles a branch point / support boundary, or the CDF uses the incomplete gamma function beyond x = a+1")
{
	Src& s = c.s;
	Dist D = gen_dist(s);
	double a = gen_arg(s, D), b = gen_arg(s, D);
	if(a > b)
		std::swap(a, b);
	bool straddle = false;
	for(double bp : D.breakpoints)
		if(a <= bp && b >= bp)
			straddle = true;
	if(straddle || ((D.name == "chi_square" || D.name == "chi_bar_square") && b > D.centre + 2))
		c.nt();
	c.cls(D.name.c_str());
	VLOG(c, D.name << " centre=" << D.centre << " scale=" << D.scale << " arguments " << a << " < " << b);
	double pa = 0, pb = 0, ca = 0, cb = 0, cfarl = 0, cfarr = 0;
	VMUST_RETURN(D.name << " pdf/cdf", pa = D.pdf(a); pb = D.pdf(b); ca = D.cdf(a); cb = D.cdf(b); cfarl = D.cdf(D.centre - 1e3 * D.scale - 1); cfarr = D.cdf(D.centre + 1e3 * D.scale + 1e3));
	VCHECK(pa >= 0 && pb >= 0 && std::isfinite(pa) && std::isfinite(pb), "density negative or not finite: pdf(" << a << ")=" << pa << " pdf(" << b << ")=" << pb);
	VCHECK(ca >= -4 * EPS && ca <= 1 + 4 * EPS && cb >= -4 * EPS && cb <= 1 + 4 * EPS, "CDF outside [0,1] (beyond rounding): cdf(" << a << ")=" << ca << " cdf(" << b << ")=" << cb);
	VCHECK(cb >= ca - 4 * EPS - D.acc, "CDF decreases: cdf(" << a << ")=" << ca << " > cdf(" << b << ")=" << cb);
	VCLOSE(c, "cdf_far_left", cfarl, 0.0, D.acc, "CDF far below the support/bulk");
	VCLOSE(c, "cdf_far_right", cfarr, 1.0, D.acc + 1e-14, "CDF far above the bulk");
	if(a < D.lo)
		VCHECK(pa == 0 && std::fabs(ca) <= 4 * EPS, "outside the support: pdf(" << a << ")=" << pa << " cdf=" << ca);
	if(b > D.hi)
		VCHECK(pb == 0 && cb == 1, "above the support: pdf(" << b << ")=" << pb << " cdf=" << cb);
	// CDF difference = integral of the density (plus the atom at the lower support end if it lies inside (a,b])
	double qa = a, qb = b;
	if(D.singular_below > 0)
	{
		// integrable singularity of the density at the lower support end: compare on [max(a, lo+delta), b] only
		double cut = D.lo + D.singular_below * D.scale;
		if(qb <= cut)
			return;
		if(qa < cut)
		{
			qa = cut;
			VMUST_RETURN(D.name << " cdf", ca = D.cdf(qa));
		}
	}
	long double integral = integrate_pdf(D, qa, qb);
	double atom = (D.atom_at_lo > 0 && qa < D.lo && qb >= D.lo) ? D.atom_at_lo : 0.0;
	// (a quadrature node within half an ulp of a jump of the density - the ends of the uniform distribution - is rounded onto it: the
	// reference itself is uncertain by the density times a few ulps of the argument; found by the thorough tier)
	double pc = 0;
	VMUST_RETURN(D.name << " pdf", pc = D.pdf(D.centre));
	double jump_slack = 8 * EPS * std::max(std::fabs(qa), std::fabs(qb)) * std::max(pc, std::max(pa, pb));
	VCLOSE(c, "cdf_difference_is_integral_of_pdf", cb - ca, (double) integral + atom, 1e-10 + D.acc + jump_slack, D.name << ": cdf(" << qb << ")-cdf(" << qa << ") vs the integral of the density (Gauss-Legendre in long double)");
	if(D.name == "normal")
		VCLOSE(c, "normal_cdf_reference", ca, (double) ref::normal_cdf(a, D.centre, D.scale), 4 * EPS, "CDF_Gauss vs erfc reference");
}

// the chi-square family against an independent reference over its whole support, including the neighbourhood of zero where the density of
// fewer than two degrees of freedom is singular (the coherence clause cannot integrate through that); and the two-dimensional Gaussian
VCLAUSE(references, 40, 10000, 200000, "fewer than two degrees of freedom with an argument below 0.01, or more than 200 degrees of freedom")
{
	Src& s = c.s;
	if(s.chance(0.25))
	{
		std::pair<double, double> mean(s.mixed(-3, 3), s.mixed(-3, 3)), sigma(std::pow(10.0, s.uniform(-3, 3)), std::pow(10.0, s.uniform(-3, 3)));
		double x = mean.first + sigma.first * s.uniform(-8, 8), y = mean.second + sigma.second * s.uniform(-8, 8);
		c.cls("gauss_2d");
		VLOG(c, "PDF_Gauss_2D(" << x << "," << y << ") mean (" << mean.first << "," << mean.second << ") sigma (" << sigma.first << "," << sigma.second << ")");
		double p = 0, px = 0, py = 0;
		VMUST_RETURN("PDF_Gauss_2D", p = PDF_Gauss_2D(x, y, mean, sigma); px = PDF_Gauss(x, mean.first, sigma.first); py = PDF_Gauss(y, mean.second, sigma.second));
		long double tx = ((long double) x - mean.first) / sigma.first, ty = ((long double) y - mean.second) / sigma.second;
		long double rp = expl(-0.5L * (tx * tx + ty * ty)) / (2 * M_PIl * sigma.first * sigma.second);
		VCHECK(p >= 0 && std::isfinite(p), "PDF_Gauss_2D = " << p);
		// the exponent (up to 64) is rounded once: relative error up to 64 eps
		VCLOSE(c, "gauss_2d_reference", p, (double) rp, 256 * EPS * (double) rp + 1e-300, "PDF_Gauss_2D vs the closed form in long double");
		VCLOSE(c, "gauss_2d_is_product_of_marginals", p, px * py, 256 * EPS * px * py + 1e-300, "PDF_Gauss_2D vs the product of the one-dimensional densities");
		return;
	}
	double dof = s.pick({2, 2, 1}) == 0 ? s.uniform(0.5, 10) : (s.coin() ? std::pow(10.0, s.uniform(std::log10(0.5), std::log10(400.0))) : (double) s.range(1, 400));
	double x;
	switch(s.pick({3, 3, 1, 1}))
	{
		case 0: x = dof + (std::sqrt(2 * dof) + 1) * s.uniform(-4, 8); break;
		case 1: x = std::pow(10.0, s.uniform(-12, 0)) * (s.coin() ? 1.0 : dof); break;	  // next to zero
		case 2: x = dof + 2.0 + s.sign() * std::pow(10.0, s.uniform(-9, 0)); break;		  // both sides of the series / continued-fraction switch
		default: x = dof * std::pow(10.0, s.uniform(0, 1.5)); break;					  // upper tail
	}
	if(!(x > 0))
		x = std::pow(10.0, s.uniform(-12, 0));
	if((dof < 2 && x < 0.01) || dof > 200)
		c.nt();
	c.cls(dof < 2 ? "chi_square_dof_below_2" : (dof / 2 > 100 ? "chi_square_dof_above_200" : "chi_square"));
	VLOG(c, "chi-square dof=" << dof << " x=" << x);
	double pdf = 0, cdf = 0;
	VMUST_RETURN("PDF_Chi_Square/CDF_Chi_Square", pdf = PDF_Chi_Square(x, dof); cdf = CDF_Chi_Square(x, dof));
	long double rpdf = ref::chi2_pdf(x, dof), rcdf = ref::chi2_cdf(x, dof);
	double acc = dof / 2 <= 100 ? 2e-12 : 2e-3;	  // accuracy class of the regularized incomplete gamma function (C06)
	VCLOSE(c, "chi_square_cdf_reference", cdf, (double) rcdf, acc, "CDF_Chi_Square(" << x << "," << dof << ") vs the reference");
	// the density is a closed form (power, exponential, gamma function): relative accuracy, the exponent carries |log| up to ~1e3
	VCLOSE(c, "chi_square_pdf_reference", pdf, (double) rpdf, 1e-11 * (double) rpdf + 1e-300, "PDF_Chi_Square(" << x << "," << dof << ") vs the reference");
	// chi-bar mixtures are the weighted sums (weight 0 is the atom at zero)
	int k = (int) s.range(1, 6);
	std::vector<double> w((size_t) k + 1);
	double tot = 0;
	for(auto& v : w)
	{
		v = s.chance(0.2) ? 0.0 : s.unit();
		tot += v;
	}
	if(tot == 0)
		w[0] = tot = 1;
	for(auto& v : w)
		v /= tot;
	double pb = 0, cb = 0;
	VMUST_RETURN("PDF/CDF_Chi_Bar_Square", pb = PDF_Chi_Bar_Square(x, w); cb = CDF_Chi_Bar_Square(x, w));
	long double rpb = 0, rcb = w[0];
	for(int d = 1; d <= k; d++)
	{
		rpb += w[(size_t) d] * ref::chi2_pdf(x, d);
		rcb += w[(size_t) d] * ref::chi2_cdf(x, d);
	}
	VCLOSE(c, "chi_bar_cdf_reference", cb, (double) rcb, 2e-12 * (k + 1), "CDF_Chi_Bar_Square(" << x << ") with weights " << show(w));
	VCLOSE(c, "chi_bar_pdf_reference", pb, (double) rpb, 1e-11 * (double) rpb + 1e-300, "PDF_Chi_Bar_Square(" << x << ") with weights " << show(w));
}

VCLAUSE(discrete, 40, 10000, 200000, "counts beyond the mean plus one (continued-fraction branch of the incomplete gamma function), p at 0 or 1, or trials > 100")
{
	Src& s = c.s;
	if(s.coin())
	{
		unsigned n = s.coin() ? (unsigned) s.range(0, 30) : (unsigned) s.range(0, 170);
		double p   = s.pick({6, 1, 1, 1}) == 0 ? s.unit() : (s.coin() ? (s.coin() ? 0.0 : 1.0) : (s.coin() ? std::pow(10.0, s.uniform(-12, -1)) : 1.0 - std::pow(10.0, s.uniform(-12, -1))));
		if(p == 0 || p == 1 || n > 100)
			c.nt();
		c.cls("binomial");
		VLOG(c, "binomial trials=" << n << " p=" << p);
		long double sum = 0;
		double prev_cdf = 0;
		unsigned kmax = n;
		for(unsigned k = 0; k <= kmax; k++)
		{
			double pm = 0, cd = 0;
			bool do_cdf = (n <= 40) || (k % 7 == 0) || k == n;
			VMUST_RETURN("PMF_Binomial", pm = PMF_Binomial(n, p, k));
			VCHECK(pm >= 0 && pm <= 1 + 8 * EPS, "PMF_Binomial(" << n << "," << p << "," << k << ")=" << pm);
			long double rp = ref::binomial_pmf(n, p, k);
			// (the factors p^k and (1-p)^(n-k) are formed separately in double: below ~1e-290 they are subnormal and carry fewer digits)
			if(powl((long double) p, k) > 1e-290L && powl(1.0L - p, n - k) > 1e-290L)
				VCLOSE(c, "binomial_pmf_reference", pm, (double) rp, 64 * EPS * (1 + n) * (double) rp + 1e-300, "PMF_Binomial(" << n << "," << p << "," << k << ")");
			else
				c.cls("binomial_factor_subnormal");
			sum += pm;
			if(do_cdf)
			{
				VMUST_RETURN("CDF_Binomial", cd = CDF_Binomial(n, p, k));
				VCLOSE(c, "binomial_cdf_is_sum_of_pmf", cd, (double) sum, 16.0 * (k + 1) * EPS, "CDF_Binomial(" << n << "," << p << "," << k << ") vs the sum of the mass function");
				VCHECK(cd >= prev_cdf - 16.0 * (k + 1) * EPS && cd <= 1 + 16.0 * (k + 1) * EPS, "CDF_Binomial not monotone / above 1 at k=" << k);
				prev_cdf = cd;
			}
		}
		VCLOSE(c, "binomial_sums_to_one", (double) sum, 1.0, 64.0 * (n + 1) * EPS, "sum of PMF_Binomial over k=0..n");
		// more successes than trials: no mass, everything accumulated
		{
			unsigned kb = n + 1 + (unsigned) s.range(0, 5);
			double pmb = 1, cdb = 0;
			VMUST_RETURN("PMF/CDF_Binomial beyond the number of trials", pmb = PMF_Binomial(n, p, kb); cdb = CDF_Binomial(n, p, kb));
			VCHECK(pmb == 0.0, "PMF_Binomial(" << n << "," << p << "," << kb << ")=" << pmb << " for more successes than trials");
			VCLOSE(c, "binomial_cdf_beyond_trials", cdb, 1.0, 64.0 * (n + 1) * EPS, "CDF_Binomial(" << n << "," << p << "," << kb << ") for more successes than trials");
		}
	}
	else
	{
		double mu = s.pick({5, 1}) == 0 ? std::pow(10.0, s.uniform(-3, 3)) : 0.0;
		unsigned k0 = (unsigned) s.range(0, 500);
		if(s.coin())
			k0 = (unsigned) std::min(500.0, std::max(0.0, mu + s.uniform(-4, 8) * std::sqrt(mu + 1)));
		if(k0 + 1 > mu + 1 || k0 + 1 > 100)
			c.nt();
		c.cls("poisson");
		VLOG(c, "poisson mean=" << mu << " counts 0.." << k0);
		long double sum = 0;
		double prev = 0;
		for(unsigned k = 0; k <= k0; k++)
		{
			double pm = 0;
			VMUST_RETURN("PMF_Poisson", pm = PMF_Poisson(mu, k));
			VCHECK(pm >= 0 && pm <= 1 + 8 * EPS, "PMF_Poisson(" << mu << "," << k << ")=" << pm);
			long double rp = ref::poisson_pmf(mu, k);
			VCLOSE(c, "poisson_pmf_reference", pm, (double) rp, 64 * EPS * (2 + k + mu) * (double) rp + 1e-300, "PMF_Poisson(" << mu << "," << k << ")");
			sum += pm;
			bool do_cdf = (k0 <= 40) || (k % 11 == 0) || k == k0 || (k >= 95 && k <= 105);
			if(do_cdf)
			{
				double cd = 0;
				VMUST_RETURN("CDF_Poisson", cd = CDF_Poisson(mu, k));
				double acc = (k + 1 <= 100) ? 2e-12 : 2e-3;
				VCHECK(cd >= 0 && cd <= 1, "CDF_Poisson(" << mu << "," << k << ")=" << cd);
				VCLOSE(c, k + 1 <= 100 ? "poisson_cdf_is_sum_of_pmf" : "poisson_cdf_is_sum_of_pmf_k_ge_100", cd, (double) sum, 16.0 * (k + 1) * EPS + acc, "CDF_Poisson(" << mu << "," << k << ") vs the sum of the mass function");
				VCHECK(cd >= prev - 2 * acc, "CDF_Poisson decreases in the count at k=" << k);
				prev = cd;
			}
		}
	}
}

VCLAUSE(quantiles, 20, 10000, 200000, "p within 1e-3 of 0 or 1")
{
	Src& s = c.s;
	double p;
	switch(s.pick({20, 20, 20, 1}))
	{
		case 3: p = 0.5; break;
		case 0: p = s.uniform(0.001, 0.999); break;
		case 1: p = std::pow(10.0, s.uniform(-12, -3)); break;
		default: p = 1.0 - std::pow(10.0, s.uniform(-12, -3)); break;
	}
	if(!(p > 1e-12 && p < 1 - 1e-12))
		throw Discard();
	if(p < 1e-3 || p > 1 - 1e-3)
		c.nt();
	if(s.coin())
	{
		double mu = s.mixed(-3, 3), sg = std::pow(10.0, s.uniform(-3, 3));
		c.cls("Quantile_Gauss");
		VLOG(c, "Quantile_Gauss(" << p << "," << mu << "," << sg << ")");
		double q = 0;
		VMUST_RETURN("Quantile_Gauss", q = Quantile_Gauss(p, mu, sg));
		long double rq = ref::normal_quantile(p, mu, sg);
		// Inv_Erf is good to 1e-4: the quantile to sqrt(2)*sigma*1e-4 (p is doubled and shifted before the inversion: +eps/(2 pdf) in the tails)
		long double dens = expl(-0.5L * ((rq - mu) / sg) * ((rq - mu) / sg)) / (sg * sqrtl(2 * M_PIl));
		double tol = std::sqrt(2.0) * sg * 1e-4 + 4 * EPS / (double) dens + 4 * EPS * std::fabs(mu);
		VCLOSE(c, "quantile_gauss", q, (double) rq, tol, "Quantile_Gauss(" << p << "," << mu << "," << sg << ")");
		// and it inverts the library's own CDF to the corresponding accuracy
		double back = 0;
		VMUST_RETURN("CDF_Gauss", back = CDF_Gauss(q, mu, sg));
		VCLOSE(c, "cdf_of_quantile", back, p, (double) dens * std::sqrt(2.0) * sg * 1.05e-4 + 8 * EPS, "CDF_Gauss(Quantile_Gauss(p)) vs p");
	}
	else
	{
		unsigned k = s.pick({1, 3, 1}) == 0 ? 0u : (s.coin() ? (unsigned) s.range(1, 30) : (s.chance(0.2) ? (unsigned) s.range(97, 102) : (unsigned) s.range(31, 400)));
		c.cls("Inv_CDF_Poisson");
		VLOG(c, "Inv_CDF_Poisson(" << k << "," << p << ")");
		double mu = 0;
		VMUST_RETURN("Inv_CDF_Poisson", mu = Inv_CDF_Poisson(k, p));
		VCHECK(std::isfinite(mu) && mu >= 0, "Inv_CDF_Poisson(" << k << "," << p << ")=" << mu);
		long double back = ref::poisson_cdf(mu, k);
		double acc = (k + 1 <= 100) ? 1e-7 : 2e-3;
		VCLOSE(c, k + 1 <= 100 ? "poisson_quantile_roundtrip" : "poisson_quantile_roundtrip_k_ge_100", (double) back, p, acc, "CDF_Poisson(Inv_CDF_Poisson(" << k << "," << p << ")=" << mu << ") evaluated with the reference");
	}
}

VCLAUSE(likelihoods, 80, 10000, 200000, "a background is given and some bin has zero observed events, or more than one bin")
{
	Src& s = c.s;
	int bins = (int) s.range(1, 8);
	std::vector<double> sig((size_t) bins), bkg((size_t) bins);
	std::vector<unsigned long int> obs((size_t) bins);
	bool with_bkg = s.coin(), zero_bin = false;
	for(int i = 0; i < bins; i++)
	{
		// signal plus background over the stated range of Poisson means 1e-3..1e3, counts 0..500
		sig[(size_t) i] = std::pow(10.0, s.uniform(-3, with_bkg ? 2.69 : 3));
		bkg[(size_t) i] = with_bkg ? std::pow(10.0, s.uniform(-3, 2.69)) : 0.0;
		obs[(size_t) i] = s.chance(0.25) ? 0ul : (unsigned long) s.range(1, 500);
		if(obs[(size_t) i] == 0)
			zero_bin = true;
	}
	if((with_bkg && zero_bin) || bins > 1)
		c.nt();
	VLOG(c, "bins=" << bins << " signal=" << show(sig) << " background=" << show(bkg) << " observed=" << show(std::vector<double>(obs.begin(), obs.end())));
	long double logprod = 0;
	for(int i = 0; i < bins; i++)
	{
		double l1 = 0, ll1 = 0, pm = 0;
		if(with_bkg)
			VMUST_RETURN("Likelihood_Poisson", l1 = Likelihood_Poisson(sig[(size_t) i], obs[(size_t) i], bkg[(size_t) i]); ll1 = Log_Likelihood_Poisson(sig[(size_t) i], obs[(size_t) i], bkg[(size_t) i]));
		else
			VMUST_RETURN("Likelihood_Poisson", l1 = Likelihood_Poisson(sig[(size_t) i], obs[(size_t) i]); ll1 = Log_Likelihood_Poisson(sig[(size_t) i], obs[(size_t) i]));
		VMUST_RETURN("PMF_Poisson", pm = PMF_Poisson(sig[(size_t) i] + bkg[(size_t) i], (unsigned) obs[(size_t) i]));
		long double rp = ref::poisson_pmf((long double) sig[(size_t) i] + bkg[(size_t) i], (unsigned) obs[(size_t) i]);
		double rel	   = 256 * EPS * (2 + obs[(size_t) i] + sig[(size_t) i] + bkg[(size_t) i]);
		VCLOSE(c, "likelihood_is_pmf", l1, pm, rel * pm + 1e-300, "Likelihood_Poisson(s,n,b) vs PMF_Poisson(s+b,n) in bin " << i);
		VCLOSE(c, "likelihood_reference", l1, (double) rp, rel * (double) rp + 1e-300, "Likelihood_Poisson vs the reference mass function in bin " << i);
		VCLOSE(c, "log_likelihood", ll1, (double) logl(rp), rel * (1 + std::fabs((double) logl(rp))), "Log_Likelihood_Poisson vs log of the mass function in bin " << i);
		logprod += logl(rp);
	}
	double lb = 0, llb = 0;
	if(with_bkg)
		VMUST_RETURN("Likelihood_Poisson_Binned", lb = Likelihood_Poisson_Binned(sig, obs, bkg); llb = Log_Likelihood_Poisson_Binned(sig, obs, bkg));
	else if(s.coin())
		VMUST_RETURN("Likelihood_Poisson_Binned", lb = Likelihood_Poisson_Binned(sig, obs); llb = Log_Likelihood_Poisson_Binned(sig, obs));
	else
		VMUST_RETURN("Likelihood_Poisson_Binned", lb = Likelihood_Poisson_Binned(sig, obs, std::vector<double>((size_t) bins, 0.0)); llb = Log_Likelihood_Poisson_Binned(sig, obs, std::vector<double>((size_t) bins, 0.0)));
	double tol = 1e-11 * (1 + std::fabs((double) logprod)) * bins;
	VCLOSE(c, "binned_log_likelihood_is_sum", llb, (double) logprod, tol, "Log_Likelihood_Poisson_Binned vs the sum of the logarithms of the mass function");
	VCLOSE(c, "binned_likelihood_is_product", lb, (double) expl(logprod), 4 * tol * (double) expl(logprod) + 1e-300, "Likelihood_Poisson_Binned vs the product over the bins");
}

VCLAUSE(kde, 500, 1500, 30000, "weights differ by more than a factor 10, or the bandwidth is below 3 grid steps, or data sit within one bandwidth of the window edge")
{
	Src& s = c.s;
	double xmin = s.mixed(-2, 2), W = std::pow(10.0, s.uniform(-2, 3)), xmax = xmin + W;
	int N = (int) s.range(2, 120);
	std::vector<DataPoint> data;
	double wmin = 1e308, wmax = 0;
	int mode = s.pick({4, 2, 2, 1, 1});   // uniform, central bump, piled towards xMin, tight cluster, all identical
	double centre = s.unit(), spread = std::pow(10.0, s.uniform(-15, -2));
	bool any_positive = false;
	for(int i = 0; i < N; i++)
	{
		double u = mode == 0 ? s.unit() : (mode == 1 ? 0.5 + 0.12 * (s.unit() + s.unit() + s.unit() - 1.5) : (mode == 2 ? s.unit() * s.unit() : (mode == 3 ? centre + spread * (s.unit() - 0.5) : centre)));
		double w = s.coin() ? 1.0 : (s.chance(0.05) ? 0.0 : std::pow(10.0, s.uniform(-2, 2)));
		if(i == N - 1 && !any_positive && w == 0)
			w = 1.0;   // a sample without any weight has no density
		any_positive = any_positive || w > 0;
		data.push_back(DataPoint(xmin + W * std::min(std::max(u, 0.0), 1.0), w));
		if(w > 0)
			wmin = std::min(wmin, w);
		wmax = std::max(wmax, w);
	}
	if(mode >= 3)
		c.cls(mode == 3 ? "kde_tight_cluster" : "kde_identical_data");
	double dx = W / 149.0;
	bool automatic = s.chance(0.3);
	double bw = automatic ? 0.0 : dx * std::pow(10.0, s.chance(0.2) ? s.uniform(-6, 0.2) : s.uniform(std::log10(1.5), std::log10(149.0)));
	if(!automatic && bw < dx)
		c.cls("kde_bandwidth_below_grid_step");
	// "arbitrary weighted samples, windows": a single datum, and data lying (partly) outside the window on either side. Drawn last so that
	// saved cases of earlier decoders still decode to the same sample (an exhausted sequence yields variant 0).
	int variant = s.pick({6, 1, 1, 1, 1});	 // as generated, single datum, some beyond xMax, some below xMin, some beyond both ends
	if(variant == 1)
	{
		data.resize(1);
		N = 1;
		if(!(data[0].weight > 0))
			data[0].weight = 1.0;
		wmin = wmax = data[0].weight;
		c.cls("kde_single_datum");
	}
	else if(variant >= 2)
	{
		// keep one positively weighted datum inside the window (the first such): a sample wholly outside has no density inside to normalise
		size_t keep = 0;
		while(keep < data.size() && !(data[keep].weight > 0))
			keep++;
		int moved = 0;
		for(size_t i = 0; i < data.size(); i++)
		{
			if(i == keep || !s.chance(0.3))
				continue;
			double far = W * std::pow(10.0, s.uniform(-3, 0.5)) * s.unit();
			bool right = variant == 2 || (variant == 4 && s.coin());
			data[i].value = right ? xmax + far : xmin - far;
			moved++;
		}
		if(moved)
			c.cls(variant == 2 ? "kde_data_beyond_xmax" : (variant == 3 ? "kde_data_below_xmin" : "kde_data_outside_both_ends"));
	}
	bool edge = false;
	for(auto& d : data)
		if(d.value - xmin < (bw > 0 ? bw : 0.05 * W) || xmax - d.value < (bw > 0 ? bw : 0.05 * W))	// includes data outside the window
			edge = true;
	if(wmax > 10 * wmin || (bw > 0 && bw < 3 * dx) || edge)
		c.nt();
	VLOG(c, "KDE window [" << xmin << "," << xmax << "] N=" << N << " bandwidth=" << bw << (automatic ? " (automatic)" : "") << " weights in [" << wmin << "," << wmax << "]");
	{
		std::ostringstream o;
		o.precision(17);
		for(int i = 0; i < N && i < 12; i++)
			o << " (" << data[(size_t) i].value << "," << data[(size_t) i].weight << ")";
		VLOG(c, "KDE data (first 12):" << o.str());
	}
	Interpolation k;
	VMUST_RETURN("Perform_KDE", k = Perform_KDE(data, xmin, xmax, bw));
	// non-negative density; integrates to one: by the spline's own integral and by an independent per-segment Gauss sum
	double total = 0, vmax = 0;
	VMUST_RETURN("Interpolation::Integrate", total = k.Integrate(xmin, xmax));
	long double gsum = 0;
	static const long double gx[3] = {-0.774596669241483377035853079956L, 0.0L, 0.774596669241483377035853079956L};
	static const long double gw[3] = {0.555555555555555555555555555556L, 0.888888888888888888888888888889L, 0.555555555555555555555555555556L};
	double lo = k.domain[0], hi = k.domain[1];
	VCLOSE(c, "kde_domain_left", lo, xmin, 4 * EPS * (std::fabs(xmin) + W), "KDE domain starts at xMin");
	VCLOSE(c, "kde_domain_right", hi, xmax, 300 * EPS * (std::fabs(xmax) + W), "KDE domain ends at xMax");
	std::vector<double> vals;
	for(int j = 0; j < 149; j++)
	{
		long double l = (long double) lo + ((long double) hi - lo) * j / 149, r = (long double) lo + ((long double) hi - lo) * (j + 1) / 149;
		long double mid = (l + r) / 2, half = (r - l) / 2, ssum = 0;
		for(int q = 0; q < 3; q++)
		{
			double xq = (double) (mid + gx[q] * half), v = 0;
			VMUST_RETURN("KDE evaluation", v = k(xq));
			vals.push_back(v);
			vmax = std::max(vmax, std::fabs(v));
			ssum += gw[q] * v;
		}
		gsum += ssum * half;
	}
	for(double v : vals)
		VCHECK(v >= -1e-12 * vmax, "kernel density estimate negative: " << v << " (maximum " << vmax << ")");
	VCLOSE(c, "kde_integral", total, 1.0, 1e-6, "Integrate(xMin,xMax) of the kernel density estimate");
	// the 3-point Gauss sum is exact for the cubic pieces only if the sub-intervals coincide with the spline's intervals: they do (150 knots)
	VCLOSE(c, "kde_integral_gauss", (double) gsum, 1.0, 1e-6, "independent Gauss quadrature of the kernel density estimate over its window");
}
