// C11 Minimisers never end worse than they started and converge on convex bowls
#include "../engine/harness.hpp"
#include <set>
#include <cstring>
#include "../engine/lacommon.hpp"

#include <functional>

#include "libphysica/Numerics.hpp"

using namespace vf;
using libphysica::Minimization;
const char* const vf::kPropertyId = "C11";

namespace
{
// ---- 1D unimodal objectives f(x) = f0 + A*g((x-x0)/L), g evaluated without cancellation ---------------------------------------
struct Obj1
{
	std::function<double(double)> f;
	double x0, L, A, f0;
	int power;			 // leading power of g at the minimum (2 or 4)
	double curvature;	 // g ~ curvature * t^power near 0
	std::string desc;
	bool asymmetric = false;
	double tmax = 1e9;	 // |t| beyond which the objective leaves the double range
};
Obj1 gen_obj1(Src& s)
{
	Obj1 o;
	o.x0 = s.mixed(-3, 3);
	o.L	 = std::pow(10.0, s.uniform(-3, 3));
	o.A	 = std::pow(10.0, s.uniform(-3, 3));
	o.f0 = s.pick({1, 2}) == 0 ? 0.0 : s.sign() * std::pow(10.0, s.uniform(-3, 3));
	int fam = s.pick({4, 4, 4, 6, 3});
	double x0 = o.x0, L = o.L, A = o.A, f0 = o.f0;
	switch(fam)
	{
		case 4:
		{	// multimodal: a parabola with ripples deep enough for several wells (descent clause only)
			double amp = s.uniform(1, 30), om = std::pow(10.0, s.uniform(0.3, 1.5)), ph = s.uniform(0, 6.283185307179586);
			o.f = [=](double x) { double t = (x - x0) / L; return f0 + A * (t * t + amp * (1 - std::cos(om * t + ph))); };
			o.power = 0;
			o.curvature = 1;
			o.desc = "multimodal t^2+a(1-cos(w t+p))";
			break;
		}
		case 0:
			o.f = [=](double x) { double t = (x - x0) / L; return f0 + A * t * t; };
			o.power = 2;
			o.curvature = 1;
			o.desc = "t^2";
			break;
		case 1:
			o.f = [=](double x) { double t = (x - x0) / L; return f0 + A * t * t * t * t; };
			o.power = 4;
			o.curvature = 1;
			o.desc = "t^4";
			break;
		case 2:
			o.f = [=](double x) { double t = (x - x0) / L, sh = std::sinh(0.5 * t); return f0 + A * 2 * sh * sh; };	  // cosh(t)-1 without cancellation
			o.power = 2;
			o.curvature = 0.5;
			o.desc = "cosh(t)-1";
			o.tmax = 500;
			break;
		default:
			// Morse well (steep wall on one side, flat tail on the other, like a Lennard-Jones well): (1-e^{-t})^2, minimum 0 at t=0
			{
				double sg = s.sign();
				o.f = [=](double x) { double t = sg * (x - x0) / L, e = -std::expm1(-t); return f0 + A * e * e; };
				o.power = 2;
				o.curvature = 1;
				o.asymmetric = true;
				o.desc = sg > 0 ? "Morse well (wall left)" : "Morse well (wall right)";
			}
			break;
	}
	return o;
}
}	// namespace

VCLAUSE(brent_1d, 40, 30000, 600000, "the start is not already within tolerance of the minimiser and the well is asymmetric or quartic-flat, or the starting points are given in uphill order")
{
	Src& s = c.s;
	Obj1 o = gen_obj1(s);
	// two starting abscissae anywhere within 0.1..100 scales of the minimiser (bounded on the flat side of the Morse tail), either order
	// ... distances and separations over the stated 1e-3..1e3 scales; exactly on the minimiser; symmetric about it (equal values)
	auto start = [&]() { double t = s.sign() * std::pow(10.0, s.chance(0.25) ? s.uniform(-3, 3) : s.uniform(-1, 2)); if(o.asymmetric) t = std::max(-3.0, std::min(8.0, t)); t = std::max(-o.tmax, std::min(o.tmax, t)); return o.x0 + o.L * t; };
	double a = start(), b = start();
	switch(s.pick({12, 1, 1, 2}))
	{
		case 1: a = o.x0; c.cls("start_on_the_minimiser"); break;
		case 2: b = o.x0 - (a - o.x0); c.cls("starts_symmetric_about_the_minimiser"); break;
		case 3: b = a + o.L * s.sign() * std::pow(10.0, s.uniform(-3, o.tmax < 1e9 ? 2.0 : 3.0)) * (o.asymmetric ? 0.0 : 1.0); c.cls("start_separation_1e-3_to_1e3"); break;
		default: break;
	}
	// "initial step sizes 1e-3..1e3" of the scale: two starts closer than that see a numerically flat objective (the fuzzer found a pair 18 ulp apart)
	if(std::fabs(a - b) < 1e-3 * o.L)
		b = a + (b >= a ? 1 : -1) * 1e-3 * o.L * (1 + 999 * s.unit());
	double tol = std::pow(10.0, s.uniform(-12, -3));
	bool use_default = s.chance(0.1);
	if(use_default)
		tol = 3e-8;
	long calls = 0;
	double best_start = 0;
	auto f = [&](double x) { calls++; return o.f(x); };
	double fa = o.f(a), fb = o.f(b);
	best_start = std::min(fa, fb);
	bool uphill = fb > fa;
	if(o.asymmetric || o.power == 4 || uphill)
		c.nt();
	c.cls(o.desc.c_str());
	c.cls(uphill ? "uphill_order" : "downhill_order");
	VLOG(c, o.desc << " x0=" << o.x0 << " L=" << o.L << " A=" << o.A << " f0=" << o.f0 << " starts " << a << "," << b << " tol=" << tol);
	double xmin = 0, xmax = 0, xm2 = 0;
	if(use_default)
		VMUST_RETURN("Find_Minimum (default tolerance)", xmin = libphysica::Find_Minimum(f, a, b));
	else
		VMUST_RETURN("Find_Minimum", xmin = libphysica::Find_Minimum(f, a, b, tol));
	VCHECK(std::isfinite(xmin), "Find_Minimum returned " << xmin);
	double fx = o.f(xmin);
	VCHECK(fx <= best_start, "Find_Minimum ended worse than it started: f(" << xmin << ")=" << fx << " > min(f(a),f(b))=" << best_start);
	if(o.power == 0)
	{
		// multimodal: descent only; Find_Maximum / Find_Minimum duality
		c.cls("multimodal_descent_only");
		auto negm = [&](double x) { return -o.f(x); };
		VMUST_RETURN("Find_Maximum/Find_Minimum", xmax = libphysica::Find_Maximum(negm, a, b, tol); xm2 = libphysica::Find_Minimum([&](double x) { return o.f(x); }, a, b, tol));
		VCHECK(same_bits(xmax, xm2), "Find_Maximum(-f)=" << xmax << " differs from Find_Minimum(f)=" << xm2);
		return;
	}
	// convergence: distance implied by the tolerance plus the resolution of the objective around its minimum
	double floor_t = std::pow(8 * EPS * std::max(std::fabs(o.f0) / o.A, 0.0) / o.curvature + 1e-300, 1.0 / o.power);
	// Brent's own criterion is tol*|x| + eps (absolute): that is "the distance implied by the requested tolerance"
	double dist	   = 4 * (tol * (std::fabs(xmin) + std::fabs(o.x0)) + EPS * (1 + std::fabs(o.x0) + o.L)) + 4 * o.L * floor_t;
	// ... and the distance at which steps of the size Brent is told to take (tol*|x| + eps, tiny for a minimiser at or next to zero) no longer
	// change the objective: |f'| * step < eps*|f|. Inside it every trial point compares equal and the method reports what it has (found by the
	// thorough tier: cosh bowl at x0 = 0 with f0 = 8e-3, default tolerance: 6.4e-9 away, the value within 3e-12 relative of the minimum).
	{
		double step	  = tol * std::max(std::fabs(xmin), std::fabs(o.x0)) + EPS;
		double tstall = std::pow(8 * EPS * (std::fabs(o.f0) + 1e-300) / (o.power * o.A * o.curvature) * o.L / step, 1.0 / (o.power - 1));
		dist += o.L * std::min(tstall, 0.05);
		if(tstall > 1e-6)
			c.cls("brent_step_below_objective_resolution");
	}
	VCLOSE(c, "brent_convergence", xmin, o.x0, dist, "Find_Minimum on " << o.desc << " from (" << a << "," << b << ") with tol " << tol << ": distance to the true minimiser " << o.x0 << " (evaluations " << calls << ")");
	// Find_Maximum of f is Find_Minimum of -f
	auto neg = [&](double x) { return -o.f(x); };
	VMUST_RETURN("Find_Maximum/Find_Minimum", xmax = libphysica::Find_Maximum(neg, a, b, tol); xm2 = libphysica::Find_Minimum([&](double x) { return o.f(x); }, a, b, tol));
	VCHECK(same_bits(xmax, xm2), "Find_Maximum(-f)=" << xmax << " differs from Find_Minimum(f)=" << xm2);
}

namespace
{
struct ObjN
{
	int n;
	std::vector<double> xs;	  // minimiser
	LRows q;				  // orthonormal directions (rows)
	std::vector<double> lam;
	double f0;
	double cond;
	std::vector<double> sines;	 // amplitude, frequency per direction for the multimodal variant (empty: convex)
	double eval(const std::vector<double>& x) const
	{
		double v = 0;
		for(int k = 0; k < n; k++)
		{
			long double pr = 0;
			for(int j = 0; j < n; j++)
				pr += q[(size_t) k][(size_t) j] * ((long double) x[(size_t) j] - xs[(size_t) j]);
			double p = (double) pr;
			v += 0.5 * lam[(size_t) k] * p * p;
			if(!sines.empty())
			{
				double sh = std::sin(0.5 * sines[(size_t) (2 * k + 1)] * p);
				v += sines[(size_t) (2 * k)] * 2 * sh * sh;	  // a*(1-cos(w p)) >= 0, keeps the global minimum at xs
			}
		}
		return f0 + v;
	}
};
ObjN gen_objn(Src& s, bool multimodal, int nmax, double condmax)
{
	ObjN o;
	o.n = (int) s.range(1, nmax);
	o.xs.resize((size_t) o.n);
	for(auto& v : o.xs)
		v = s.mixed(-2, 2);
	o.q	   = gen_orthogonal(s, o.n, s.pick({1, 3}) == 0 ? 0 : 2 * o.n);
	o.cond = std::pow(10.0, s.uniform(0, std::log10(condmax)));
	double sc = std::pow(10.0, s.uniform(-3, 3));
	o.lam.resize((size_t) o.n);
	for(int k = 0; k < o.n; k++)
		o.lam[(size_t) k] = sc * std::pow(o.cond, o.n == 1 ? 0.0 : -(double) k / (o.n - 1));
	o.f0 = s.pick({1, 2}) == 0 ? 0.0 : s.sign() * std::pow(10.0, s.uniform(-3, 3));
	if(multimodal)
		for(int k = 0; k < o.n; k++)
		{
			o.sines.push_back(o.lam[(size_t) k] * s.uniform(0, 2));
			o.sines.push_back(s.uniform(1, 6));
		}
	return o;
}
struct NMRun
{
	bool exited = false;
	std::string text;
	std::vector<double> x;
	double fx = 0;
	bool converged = false;
	bool trivial = false;	// the best starting vertex already satisfies the convergence criterion: nothing to do
};
// runs one minimisation through one of the three overloads and performs the per-case consistency checks
NMRun run_nm(Ctx& c, Minimization& M, const ObjN& o, const std::vector<double>& start, const std::vector<double>& deltas_in, int overload, double ftol, Src* sp = nullptr)
{
	NMRun r;
	long calls = 0;
	std::vector<std::vector<double>> first_points;   // where the objective is evaluated first: the initial simplex as the library built it
	auto f = [&](std::vector<double> x) { calls++; if((int) first_points.size() <= o.n) first_points.push_back(x); return o.eval(x); };
	int n = o.n;
	std::vector<double> deltas = deltas_in;
	if(overload == 0)
		deltas.assign((size_t) n, deltas_in[0]);   // the scalar overload displaces every coordinate by the same step
	std::vector<std::vector<double>> simplex((size_t) n + 1, start);
	for(int i = 1; i <= n; i++)
		simplex[(size_t) i][(size_t) (i - 1)] += deltas[(size_t) (i - 1)];
	if(overload == 2 && sp && sp->coin())
	{
		// an explicit simplex need not be axis-aligned nor start with its best vertex: skew it and put a random vertex first
		for(int i = 1; i <= n; i++)
			for(int j = 0; j < n; j++)
				if(j != i - 1)
					simplex[(size_t) i][(size_t) j] += 0.4 * deltas[(size_t) j] * sp->uniform(-1, 1);
		std::swap(simplex[0], simplex[(size_t) sp->range(0, n)]);
		c.cls("explicit_simplex_skewed");
	}
	double best_start = 1e308;
	for(auto& p : simplex)
		best_start = std::min(best_start, o.eval(p));
	std::vector<double> st = start, dl = deltas;
	std::vector<std::vector<double>> pp = simplex;
	GuardResult g = guarded([&]() {
		if(overload == 0)
			r.x = M.minimize(st, deltas[0], f);
		else if(overload == 1)
			r.x = M.minimize(st, dl, f);
		else
			r.x = M.minimize(pp, f);
	});
	r.exited = g.exited;
	r.text	 = g.text;
	if(g.exited)
		return r;
	VCHECK((int) r.x.size() == n, "minimize returned a point of dimension " << r.x.size());
	// the initial simplex the library actually used (start, and start displaced along each axis by its step) - "the initial simplex vertices" of the statement
	VCHECK((int) first_points.size() == n + 1, "the objective was evaluated " << first_points.size() << " times only");
	for(auto& v : simplex)
	{
		bool found = false;
		for(auto& q : first_points)
			if(q == v)
				found = true;
		VCHECK(found, "overload " << overload << ": the initial simplex vertex " << show(v) << " is not among the first " << n + 1 << " points at which the objective was evaluated (first: " << show(first_points[0]) << ", last: " << show(first_points.back()) << ")");
	}
	r.fx = o.eval(r.x);
	VCHECK(r.fx <= best_start, "minimize ended worse than it started: f(returned)=" << r.fx << " > best starting vertex " << best_start);
	// reported state is the objective evaluated at the returned point
	VCHECK((int) M.current_simplex.size() == n + 1 && (int) M.y.size() == n + 1, "simplex/y sizes " << M.current_simplex.size() << "/" << M.y.size());
	VCHECK(M.current_simplex[0] == r.x, "returned point is not current_simplex[0]");
	VCHECK(same_bits(M.fmin, M.y[0]) && same_bits(M.fmin, r.fx), "fmin=" << M.fmin << " y[0]=" << M.y[0] << " f(returned)=" << r.fx << " must coincide");
	double yhi = -1e308;
	for(int i = 0; i <= n; i++)
	{
		VCHECK(same_bits(M.y[(size_t) i], o.eval(M.current_simplex[(size_t) i])), "y[" << i << "]=" << M.y[(size_t) i] << " is not the objective at simplex vertex " << i << " (" << o.eval(M.current_simplex[(size_t) i]) << ")");
		VCHECK(M.y[0] <= M.y[(size_t) i], "simplex is not best-first: y[0]=" << M.y[0] << " > y[" << i << "]=" << M.y[(size_t) i]);
		yhi = std::max(yhi, M.y[(size_t) i]);
	}
	double rtol = 2.0 * std::fabs(yhi - M.y[0]) / (std::fabs(yhi) + std::fabs(M.y[0]) + 1e-10);
	VCHECK(rtol < ftol, "returned although the fractional range " << rtol << " of the final simplex is not below ftol=" << ftol);
	VCHECK(M.nfunc >= 0 && M.nfunc <= 5000 + 2 * n + 2, "nfunc=" << M.nfunc);
	VCHECK(M.mpts == n + 1 && M.ndim == n, "mpts/ndim " << M.mpts << "/" << M.ndim);
	// convergence in the function value (the tolerance is fractional in f)
	r.converged = (r.fx - o.f0) <= 100 * ftol * (std::fabs(o.f0) + 1e-10) + 64 * EPS * std::fabs(o.f0);
	r.trivial	= (best_start - o.f0) <= 100 * ftol * (std::fabs(o.f0) + 1e-10) + 64 * EPS * std::fabs(o.f0);
	return r;
}
void gen_start(Src& s, const ObjN& o, std::vector<double>& start, std::vector<double>& deltas, double& R, double& dscale, bool well_scaled)
{
	int n = o.n;
	R	  = std::pow(10.0, s.uniform(-2, 2));
	std::vector<double> dir((size_t) n);
	double nn = 0;
	for(auto& v : dir)
	{
		v = s.uniform(-1, 1);
		nn += v * v;
	}
	nn = std::sqrt(nn);
	if(nn == 0)
	{
		dir[0] = 1;
		nn	   = 1;
	}
	start.resize((size_t) n);
	for(int j = 0; j < n; j++)
		start[(size_t) j] = o.xs[(size_t) j] + R * dir[(size_t) j] / nn;
	dscale = well_scaled ? R * std::pow(10.0, s.uniform(-1, 1)) : std::pow(10.0, s.uniform(-3, 3));
	deltas.assign((size_t) n, dscale);
	if(s.coin())
		for(auto& d : deltas)
			d = dscale * s.uniform(0.5, 2) * s.sign();
}
}	// namespace

// per-case clauses: descent and consistency of the reported state, on convex and multimodal objectives, all three overloads,
// including re-use of one Minimization object for a sequence of minimisations
VCLAUSE(simplex_consistency, 160, 6000, 120000, "dimension >= 2, or one Minimization object is re-used for several minimisations")
{
	Src& s = c.s;
	bool multimodal = s.chance(0.4);
	ObjN o = gen_objn(s, multimodal, 6, 1e4);
	double ftol = std::pow(10.0, s.uniform(-12, -3));
	int ncalls	= s.chance(0.15) ? (int) s.range(2, 200) : 1;
	bool easy	= !multimodal && o.n <= 3 && o.cond <= 100 && ftol >= 1e-8 && o.f0 != 0;
	if(ncalls > 1 && !easy)
		ncalls = std::min(ncalls, 4);
	if(o.n >= 2 || ncalls > 1)
		c.nt();
	c.cls(multimodal ? "multimodal" : "convex_quadratic");
	if(ncalls > 1)
		c.cls("object_reused");
	VLOG(c, "n=" << o.n << " cond=" << o.cond << " f0=" << o.f0 << " ftol=" << ftol << " multimodal=" << multimodal << " calls on one object=" << ncalls);
	Minimization M(ftol);
	for(int k = 0; k < ncalls; k++)
	{
		std::vector<double> start, deltas;
		double R, ds;
		gen_start(s, o, start, deltas, R, ds, easy);
		int overload = (int) s.range(0, 2);
		static const char* on[] = {"overload_scalar_delta", "overload_vector_delta", "overload_simplex"};
		c.cls(on[overload]);
		VLOG(c, "  call " << k << " overload " << overload << " start " << show(start) << " deltas " << show(deltas));
		NMRun r = run_nm(c, M, o, start, deltas, overload, ftol, &s);
		if(r.exited)
		{
			// the iteration cap is part of the known finding K1 outside the easy class; inside it a well-scaled start on a well-conditioned bowl must return
			c.cls("nmax_exit");
			bool nmax = r.text.find("NMAX exceeded") != std::string::npos;
			VCHECK(nmax, "minimize terminated the process with an unexpected diagnostic: " << r.text);
			if(easy || !finding_open("K1"))
				VFAIL("minimize did not return (NMAX exceeded) on a well-conditioned " << o.n << "D quadratic bowl (cond " << o.cond << ", ftol " << ftol << ", call " << k << " on this object): " << r.text);
			c.known("K1");
			return;
		}
		if(easy)
		{
			// convergence itself is only asserted as a rate (clause nelder_mead_convergence_rate): a level simplex satisfies the
			// fractional test even on easy bowls (known finding K1); here the premature stops are counted
			c.cls("easy_class");
			if(!r.converged)
			{
				c.cls("easy_class_premature_stop");
				c.known("K1");
			}
		}
	}
}

// convergence of Nelder-Mead on strictly convex quadratic bowls as a *rate* over a batch (known finding K1: the method can stop
// prematurely; a per-case assertion would be a permanent alarm). One case = one batch.
VCLAUSE(nelder_mead_convergence_rate, 60000, 40, 800, "every batch is non-trivial: 400 random bowls in 1..6 dimensions, condition up to 1e4, steps 1e-3..1e3")
{
	Src& s = c.s;
	c.nt();
	const int B = 400;
	int ok_ws = 0, n_ws = 0, ok_all = 0, n_all = 0, exits = 0, trivial = 0;
	// strata: a regression confined to one dimension, one overload or one tolerance band must not hide in the overall rate
	int st_n[7][2] = {{0}}, st_ov[3][2] = {{0}}, st_tol[3][2] = {{0}};
	std::set<uint64_t> distinct_bowls;
	for(int b = 0; b < B; b++)
	{
		ObjN o		= gen_objn(s, false, 6, 1e4);
		double ftol = std::pow(10.0, s.uniform(-12, -3));
		bool ws		= s.coin();
		std::vector<double> start, deltas;
		double R, ds;
		gen_start(s, o, start, deltas, R, ds, ws);
		// a rate is a statement about many different bowls: a choice sequence that decodes to the same bowl again and again (a shrunk one:
		// all words zero) is not a batch
		{
			uint64_t h = (uint64_t) o.n * 1315423911ULL;
			auto mixd  = [&](double v) { uint64_t b; memcpy(&b, &v, 8); h = (h ^ b) * 0x100000001b3ULL; };
			mixd(o.cond); mixd(o.f0); mixd(ftol); mixd(R); mixd(ds);
			for(double v : start)
				mixd(v);
			distinct_bowls.insert(h);
		}
		Minimization M(ftol);
		int ov	= (int) s.range(0, 2);
		NMRun r = run_nm(c, M, o, start, deltas, ov, ftol, &s);
		bool good = !r.exited && r.converged;
		if(r.exited)
			exits++;
		if(!r.exited && r.trivial)
		{
			trivial++;	 // the start already meets the tolerance: counts neither for nor against
			continue;
		}
		n_all++;
		ok_all += good;
		int tb = ftol >= 1e-6 ? 0 : (ftol >= 1e-9 ? 1 : 2);
		st_n[o.n][0]++;
		st_n[o.n][1] += good;
		st_ov[ov][0]++;
		st_ov[ov][1] += good;
		st_tol[tb][0]++;
		st_tol[tb][1] += good;
		if(ws)
		{
			n_ws++;
			ok_ws += good;
		}
	}
	if((int) distinct_bowls.size() < B * 9 / 10 || n_all < B / 2)
		throw Discard();
	double rate_ws = (double) ok_ws / std::max(n_ws, 1), rate_all = (double) ok_all / n_all;
	VLOG(c, "batch of " << B << ": converged " << ok_all << "/" << n_all << " overall (" << rate_all << "), " << ok_ws << "/" << n_ws << " with step within 10x of the distance (" << rate_ws << "), NMAX exits " << exits);
	VLOG(c, "  " << trivial << " bowls whose start already met the tolerance were left out");
	c.ratio("trivial_fraction", (double) trivial / B);
	{
		std::ostringstream o;
		double worst = 1;
		auto stratum = [&](const char* nm, int k, int tot, int ok) {
			if(tot >= 40)
			{
				worst = std::min(worst, (double) ok / tot);
				o << " " << nm << k << ":" << ok << "/" << tot;
			}
		};
		for(int k = 1; k <= 6; k++)
			stratum("n", k, st_n[k][0], st_n[k][1]);
		for(int k = 0; k < 3; k++)
			stratum("overload", k, st_ov[k][0], st_ov[k][1]);
		for(int k = 0; k < 3; k++)
			stratum("tolband", k, st_tol[k][0], st_tol[k][1]);
		VLOG(c, "  strata:" << o.str());
		c.ratio("worst_stratum_failure_rate/0.35", (1 - worst) / 0.35);
		if(finding_open("K1"))
			VCHECK(worst >= 0.65, "Nelder-Mead converged on fewer than 65% of the bowls of one stratum of at least 40 (dimension / overload / tolerance band):" << o.str());
	}
	c.ratio("premature_stop_rate_overall", 1 - rate_all);
	c.ratio("premature_stop_rate_well_scaled", 1 - rate_ws);
	if(finding_open("K1"))
	{
		c.known("K1");
		VCHECK(rate_ws >= 0.95, "Nelder-Mead converged on only " << ok_ws << "/" << n_ws << " well-scaled convex bowls (measured premature-stop rate is about 0.5%, threshold 5%)");
		VCHECK(rate_all >= 0.90, "Nelder-Mead converged on only " << ok_all << "/" << n_all << " convex bowls (measured premature-stop rate is about 3%, threshold 10%)");
	}
	else
		VCHECK(ok_all == n_all, "Nelder-Mead failed to converge on " << n_all - ok_all << " of " << n_all << " strictly convex bowls");
}
