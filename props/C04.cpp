// C04 Vector and matrix algebra obeys the algebraic laws for every conformable shape
#include "../engine/harness.hpp"
#include "../engine/lacommon.hpp"

#include "libphysica/Linear_Algebra.hpp"

using namespace vf;
using libphysica::Matrix;
using libphysica::Vector;
const char* const vf::kPropertyId = "C04";

// ---- clause: sums ------------------------------------------------------------------------------------------------
VCLAUSE(sums, 400, 24000, 600000, "operands are non-square, or the two shapes differ (transposed / off by one)")
{
	int m = (int) c.s.range(1, 8), n = (int) c.s.range(1, 8);
	int rel = c.s.pick({5, 2, 1, 1, 1});   // equal, transposed, rows+1, cols+1, arbitrary
	int p = m, q = n;
	if(rel == 1)
	{
		p = n;
		q = m;
	}
	else if(rel == 2)
		p = m + 1;
	else if(rel == 3)
		q = n + 1;
	else if(rel == 4)
	{
		p = (int) c.s.range(1, 8);
		q = (int) c.s.range(1, 8);
	}
	int emode = c.s.pick({1, 1});
	Rows a = gen_entries(c.s, m, n, emode), b = gen_entries(c.s, p, q, emode);
	int op	  = (int) c.s.range(0, 5);	 // Plus, operator+, +=, Minus, operator-, -=
	bool same = (m == p && n == q);
	if(m != n || !same)
		c.nt();
	c.cls(same ? "shapes_equal" : (rel == 1 ? "shapes_transposed" : "shapes_differ"));
	c.cls(m == n ? "square" : "nonsquare");
	VLOG(c, "A(" << m << "x" << n << ")=" << show(a) << " B(" << p << "x" << q << ")=" << show(b) << " op=" << op);
	Matrix A(a), B(b);
	Matrix R;
	auto call = [&]() {
		switch(op)
		{
			case 0: R = A.Plus(B); break;
			case 1: R = A + B; break;
			case 2:
			{
				Matrix T(A);
				T += B;
				R = T;
				break;
			}
			case 3: R = A.Minus(B); break;
			case 4: R = A - B; break;
			default:
			{
				Matrix T(A);
				T -= B;
				R = T;
				break;
			}
		}
	};
	if(!same)
	{
		VMUST_EXIT("matrix sum of non-conformable shapes", call());
		return;
	}
	VMUST_RETURN("matrix sum of equal shapes", call());
	VCHECK((int) R.Rows() == m && (int) R.Columns() == n, "result shape " << R.Rows() << "x" << R.Columns());
	double sgn = op < 3 ? 1.0 : -1.0;
	for(int i = 0; i < m; i++)
		for(int j = 0; j < n; j++)
		{
			double ref = a[i][j] + sgn * b[i][j];
			VCHECK(R[i][j] == ref, "entry (" << i << "," << j << ") = " << R[i][j] << " expected " << ref);
		}
	// operands untouched by the binary forms
	for(int i = 0; i < m; i++)
		for(int j = 0; j < n; j++)
			VCHECK(A[i][j] == a[i][j] && B[i][j] == b[i][j], "operand modified at (" << i << "," << j << ")");
	// the same object on both sides, and the value of the compound assignment itself
	{
		Matrix S(A), D(A), P, Q, Tt(A), X(A), Y(A);
		VMUST_RETURN("matrix sums with the same object on both sides", S += S; D -= D; P = A + A; Q = A - A; Tt = Tt.Transpose(); Matrix& rx = (X += B); Matrix& ry = (Y -= B); VCHECK(&rx == &X && &ry == &Y, "compound assignment does not return its left operand"));
		VCHECK((int) Tt.Rows() == n && (int) Tt.Columns() == m, "A = A.Transpose() has shape " << Tt.Rows() << "x" << Tt.Columns());
		for(int i = 0; i < m; i++)
			for(int j = 0; j < n; j++)
			{
				VCHECK(S[i][j] == 2 * a[i][j] && P[i][j] == 2 * a[i][j], "A += A / A + A at (" << i << "," << j << "): " << S[i][j] << ", " << P[i][j] << " expected " << 2 * a[i][j]);
				VCHECK(D[i][j] == 0 && Q[i][j] == 0, "A -= A / A - A at (" << i << "," << j << "): " << D[i][j] << ", " << Q[i][j]);
				VCHECK(Tt[j][i] == a[i][j], "A = A.Transpose() at (" << j << "," << i << ")");
				VCHECK(X[i][j] == a[i][j] + b[i][j] && Y[i][j] == a[i][j] - b[i][j], "(A += B) / (A -= B) at (" << i << "," << j << ")");
			}
	}
}

VCLAUSE(vector_sums, 100, 12000, 300000, "dimensions differ, or dimension is not 3")
{
	int m = (int) c.s.range(1, 8);
	int rel = c.s.pick({5, 1, 1, 1});
	int p = m;
	if(rel == 1)
		p = m + 1;
	else if(rel == 2)
		p = std::max(1, m - 1);
	else if(rel == 3)
		p = (int) c.s.range(1, 8);
	int emode = c.s.pick({1, 1});
	Rows a = gen_entries(c.s, 1, m, emode), b = gen_entries(c.s, 1, p, emode);
	int op = (int) c.s.range(0, 3);	  // +, +=, -, -=
	bool same = (m == p);
	if(!same || m != 3)
		c.nt();
	c.cls(same ? "dims_equal" : "dims_differ");
	VLOG(c, "u=" << show(a[0]) << " v=" << show(b[0]) << " op=" << op);
	Vector U(a[0]), V(b[0]), R;
	auto call = [&]() {
		switch(op)
		{
			case 0: R = U + V; break;
			case 1:
			{
				Vector T(U);
				T += V;
				R = T;
				break;
			}
			case 2: R = U - V; break;
			default:
			{
				Vector T(U);
				T -= V;
				R = T;
				break;
			}
		}
	};
	if(!same)
	{
		VMUST_EXIT("vector sum of different dimensions", call());
		return;
	}
	VMUST_RETURN("vector sum of equal dimensions", call());
	VCHECK((int) R.Size() == m, "result size " << R.Size());
	double sgn = op < 2 ? 1.0 : -1.0;
	for(int i = 0; i < m; i++)
		VCHECK(R[i] == a[0][i] + sgn * b[0][i], "component " << i << " = " << R[i]);
}

// ---- clause: products --------------------------------------------------------------------------------------------
VCLAUSE(products, 600, 16000, 400000, "at least one operand is non-square")
{
	int m = (int) c.s.range(1, 8), k = (int) c.s.range(1, 8), n = (int) c.s.range(1, 8);
	int emode = c.s.pick({1, 1});
	Rows a = gen_entries(c.s, m, k, emode), b = gen_entries(c.s, k, n, emode);
	if(m != k || k != n)
		c.nt();
	c.cls(emode == 0 ? "integer_entries" : "mixed_entries");
	VLOG(c, "A(" << m << "x" << k << ")=" << show(a) << " B(" << k << "x" << n << ")=" << show(b));
	Matrix A(a), B(b), P, P2, PT, BTAT, AI, IA;
	VMUST_RETURN("matrix product of conformable shapes", P = A.Product(B); P2 = A * B; PT = P.Transpose(); BTAT = B.Transpose() * A.Transpose();
				 AI = A * libphysica::Identity_Matrix(k); IA = libphysica::Identity_Matrix(m) * A);
	VCHECK((int) P.Rows() == m && (int) P.Columns() == n, "product shape " << P.Rows() << "x" << P.Columns());
	VCHECK((int) BTAT.Rows() == n && (int) BTAT.Columns() == m, "B^T A^T shape");
	for(int i = 0; i < m; i++)
		for(int j = 0; j < n; j++)
		{
			long double ref = 0, mag = 0;
			for(int l = 0; l < k; l++)
			{
				ref += (long double) a[i][l] * (long double) b[l][j];
				mag += fabsl((long double) a[i][l] * (long double) b[l][j]);
			}
			if(emode == 0)
			{
				VCHECK(P[i][j] == (double) ref, "integer product entry (" << i << "," << j << ") = " << P[i][j] << " expected " << (double) ref);
				VCHECK(BTAT[j][i] == (double) ref, "integer (B^T A^T) entry (" << j << "," << i << ") = " << BTAT[j][i] << " expected " << (double) ref);
			}
			else
			{
				double tol = 4.0 * (k + 1) * EPS * (double) mag;
				VCLOSE(c, "product_entry", P[i][j], (double) ref, tol, "entry (" << i << "," << j << ")");
				VCLOSE(c, "transpose_identity", BTAT[j][i], P[i][j], 2 * tol, "(AB)^T vs B^T A^T at (" << j << "," << i << ")");
			}
			VCHECK(P2[i][j] == P[i][j], "operator* differs from Product at (" << i << "," << j << ")");
			VCHECK(PT[j][i] == P[i][j], "Transpose of the product at (" << j << "," << i << ")");
		}
	// A*I == A and I*A == A exactly
	VCHECK((int) AI.Rows() == m && (int) AI.Columns() == k && (int) IA.Rows() == m && (int) IA.Columns() == k, "A*I shape");
	for(int i = 0; i < m; i++)
		for(int j = 0; j < k; j++)
		{
			VCHECK(AI[i][j] == a[i][j], "A*I differs from A at (" << i << "," << j << "): " << AI[i][j] << " vs " << a[i][j]);
			VCHECK(IA[i][j] == a[i][j], "I*A differs from A at (" << i << "," << j << "): " << IA[i][j] << " vs " << a[i][j]);
		}
	// non-conformable product must stop
	if(c.s.chance(0.25))
	{
		int k2 = k + (c.s.coin() ? 1 : (k > 1 ? -1 : 1));
		Rows b2 = gen_entries(c.s, k2, n, 0);
		Matrix B2(b2);
		c.cls("nonconformable_product");
		VMUST_EXIT("matrix product with inner dimensions " << k << " and " << k2, Matrix X = A * B2; (void) X);
	}
}

// matrix-vector, vector-matrix, outer, dot, cross against the matrix product of row/column embeddings
VCLAUSE(vector_products, 400, 16000, 400000, "matrix operand is non-square, or a vector has dimension other than 3")
{
	int m = (int) c.s.range(1, 8), n = (int) c.s.range(1, 8);
	int emode = c.s.pick({1, 1});
	Rows a = gen_entries(c.s, m, n, emode);
	Rows v = gen_entries(c.s, 1, n, emode), u = gen_entries(c.s, 1, m, emode), w = gen_entries(c.s, 1, n, emode);
	if(m != n)
		c.nt();
	VLOG(c, "A(" << m << "x" << n << ")=" << show(a) << " v=" << show(v[0]) << " u=" << show(u[0]) << " w=" << show(w[0]));
	Matrix A(a);
	Vector V(v[0]), U(u[0]), W(w[0]);
	Vector AV, AV2, UA;
	Matrix O;
	double dot = 0, dot2 = 0;
	VMUST_RETURN("matrix-vector products", AV = A.Product(V); AV2 = A * V; UA = U * A; O = libphysica::Outer_Vector_Product(U, V); dot = V.Dot(W); dot2 = V * W);
	// embeddings
	Rows vcol(n, std::vector<double>(1)), urow(1, u[0]), ucol(m, std::vector<double>(1)), vrow(1, v[0]), wcol(n, std::vector<double>(1));
	for(int j = 0; j < n; j++)
	{
		vcol[j][0] = v[0][j];
		wcol[j][0] = w[0][j];
	}
	for(int i = 0; i < m; i++)
		ucol[i][0] = u[0][i];
	Matrix Mv, uM, Oo, D;
	VMUST_RETURN("embedded products", Mv = A * Matrix(vcol); uM = Matrix(urow) * A; Oo = Matrix(ucol) * Matrix(vrow); D = Matrix(vrow) * Matrix(wcol));
	VCHECK((int) AV.Size() == m && (int) UA.Size() == n && (int) O.Rows() == m && (int) O.Columns() == n, "result shapes");
	auto cmp = [&](const char* what, double got, double emb, long double mag, int terms) {
		if(emode == 0)
			VCHECK(got == emb, what << ": " << got << " vs embedded matrix product " << emb);
		else
			VCLOSE(c, "embedding", got, emb, 4.0 * (terms + 1) * EPS * (double) mag, what);
	};
	for(int i = 0; i < m; i++)
	{
		long double mag = 0;
		for(int j = 0; j < n; j++)
			mag += fabsl((long double) a[i][j] * v[0][j]);
		cmp("M*v", AV[i], Mv[i][0], mag, n);
		VCHECK(AV2[i] == AV[i], "operator*(Vector) differs from Product(Vector) at " << i);
	}
	for(int j = 0; j < n; j++)
	{
		long double mag = 0;
		for(int i = 0; i < m; i++)
			mag += fabsl((long double) a[i][j] * u[0][i]);
		cmp("v*M", UA[j], uM[0][j], mag, m);
	}
	for(int i = 0; i < m; i++)
		for(int j = 0; j < n; j++)
			VCHECK(O[i][j] == Oo[i][j] && O[i][j] == u[0][i] * v[0][j], "outer product at (" << i << "," << j << "): " << O[i][j]);
	{
		long double mag = 0, ref = 0;
		for(int j = 0; j < n; j++)
		{
			mag += fabsl((long double) v[0][j] * w[0][j]);
			ref += (long double) v[0][j] * w[0][j];
		}
		cmp("dot", dot, D[0][0], mag, n);
		cmp("dot vs definition", dot, (double) ref, mag, n);
		VCHECK(dot2 == dot, "operator*(Vector) differs from Dot");
	}
	// mismatching sizes must stop
	int bad = c.s.pick({6, 1, 1, 1});
	if(bad == 1)
	{
		Vector X((unsigned) (n + 1), 1.0);
		c.cls("bad_Mv");
		VMUST_EXIT("M*v with wrong vector size", Vector Y = A * X; (void) Y);
	}
	else if(bad == 2)
	{
		Vector X((unsigned) (m + 1), 1.0);
		c.cls("bad_vM");
		VMUST_EXIT("v*M with wrong vector size", Vector Y = X * A; (void) Y);
	}
	else if(bad == 3)
	{
		Vector X((unsigned) (n + 1), 1.0);
		c.cls("bad_dot");
		VMUST_EXIT("Dot with different sizes", double y = V.Dot(X); (void) y);
	}
}

VCLAUSE(cross, 60, 8000, 200000, "operands are not both 3-vectors, or components mix magnitudes")
{
	int da = c.s.pick({8, 1, 1}) == 0 ? 3 : (int) c.s.range(1, 6);
	int db = c.s.pick({8, 1, 1}) == 0 ? 3 : (int) c.s.range(1, 6);
	int emode = c.s.pick({1, 1});
	Rows a = gen_entries(c.s, 1, da, emode), b = gen_entries(c.s, 1, db, emode);
	VLOG(c, "a=" << show(a[0]) << " b=" << show(b[0]));
	Vector A(a[0]), B(b[0]), R;
	if(da != 3 || db != 3)
	{
		c.nt();
		c.cls("cross_not_3d");
		VMUST_EXIT("Cross on non-3-vectors", R = A.Cross(B));
		return;
	}
	if(emode == 1)
		c.nt();
	VMUST_RETURN("Cross", R = A.Cross(B));
	VCHECK(R.Size() == 3, "size " << R.Size());
	// definition via the antisymmetric matrix [a]_x times the column b
	Rows ax = {{0, -a[0][2], a[0][1]}, {a[0][2], 0, -a[0][0]}, {-a[0][1], a[0][0], 0}};
	for(int i = 0; i < 3; i++)
	{
		long double ref = 0, mag = 0;
		for(int j = 0; j < 3; j++)
		{
			ref += (long double) ax[i][j] * b[0][j];
			mag += fabsl((long double) ax[i][j] * b[0][j]);
		}
		if(emode == 0)
			VCHECK(R[i] == (double) ref, "cross component " << i << " = " << R[i] << " expected " << (double) ref);
		else
			VCLOSE(c, "cross", R[i], (double) ref, 8 * EPS * (double) mag, "component " << i);
	}
}

// ---- clause: structure -------------------------------------------------------------------------------------------
VCLAUSE(structure, 500, 16000, 400000, "matrix is non-square, or a predicate is decided by a single perturbed entry")
{
	int m = (int) c.s.range(1, 8), n = (int) c.s.range(1, 8);
	int kind = c.s.pick({3, 2, 2, 2, 1});	// arbitrary, symmetric, antisymmetric, diagonal, zero
	if(kind != 0 && c.s.chance(0.85))
		n = m;
	int emode = c.s.pick({1, 1});
	Rows a = gen_entries(c.s, m, n, emode);
	if(m == n && kind == 1)
		for(int i = 0; i < m; i++)
			for(int j = 0; j < i; j++)
				a[i][j] = a[j][i];
	if(m == n && kind == 2)
		for(int i = 0; i < m; i++)
		{
			a[i][i] = 0;
			for(int j = 0; j < i; j++)
				a[i][j] = -a[j][i];
		}
	if(kind == 3)
		for(int i = 0; i < m; i++)
			for(int j = 0; j < n; j++)
				if(i != j)
					a[i][j] = 0;
	if(kind == 4)
		for(auto& r : a)
			for(auto& x : r)
				x = 0;
	// perturb one entry to flip a predicate
	bool perturbed = false;
	if(kind != 0 && c.s.chance(0.4))
	{
		int i = (int) c.s.range(0, m - 1), j = (int) c.s.range(0, n - 1);
		a[i][j] += (c.s.coin() ? 1.0 : 0.5);
		perturbed = true;
	}
	if(m != n || perturbed)
		c.nt();
	c.cls(m == n ? "square" : "nonsquare");
	VLOG(c, "A(" << m << "x" << n << ")=" << show(a) << " kind=" << kind << " perturbed=" << perturbed);
	Matrix A(a);
	// "matrices of every shape": also a matrix that got its shape from Resize (growing or shrinking either dimension) and its entries one by one
	if(c.s.chance(0.25))
	{
		int p0 = (int) c.s.range(1, 8), q0 = (int) c.s.range(1, 8);
		Matrix Rz((unsigned) p0, (unsigned) q0, 7.0);
		VMUST_RETURN("Resize and entry assignment", Rz.Resize(m, n); for(int i = 0; i < m; i++) for(int j = 0; j < n; j++) Rz[(unsigned) i][(unsigned) j] = a[i][j]);
		A = Rz;
		c.cls(q0 > n ? "shape_from_Resize_fewer_columns" : "shape_from_Resize");
	}
	// definitions
	bool sq = (m == n), sym = sq, anti = sq, diag = sq;
	for(int i = 0; i < m && sq; i++)
		for(int j = 0; j < n; j++)
		{
			if(a[i][j] != a[j][i])
				sym = false;
			if(a[i][j] != -a[j][i])
				anti = false;
			if(i != j && a[i][j] != 0.0)
				diag = false;
		}
	bool gsq = false, gsym = false, ganti = false, gdiag = false;
	double norm = 0;
	Matrix T, TT;
	VMUST_RETURN("predicates/Transpose/Norm", gsq = A.Square(); gsym = A.Symmetric(); ganti = A.Antisymmetric(); gdiag = A.Diagonal(); norm = A.Norm(); T = A.Transpose(); TT = T.Transpose());
	VCHECK(gsq == sq, "Square()=" << gsq);
	VCHECK(gsym == sym, "Symmetric()=" << gsym << " definition " << sym);
	VCHECK(ganti == anti, "Antisymmetric()=" << ganti << " definition " << anti);
	VCHECK(gdiag == diag, "Diagonal()=" << gdiag << " definition " << diag);
	// the three predicates are exact statements about the entries: multiplying every entry by the same power of two (exactly, no entry under- or
	// overflows) cannot change them, however small or large the entries become
	if(c.s.chance(0.3))
	{
		int e2 = (int) c.s.sign() * (int) c.s.range(200, 900);
		Rows sc = a;
		bool exact = true;
		for(auto& r : sc)
			for(auto& x : r)
			{
				double y = std::ldexp(x, e2);
				if(x != 0 && (y == 0 || !std::isfinite(y) || std::ldexp(y, -e2) != x))
					exact = false;
				x = y;
			}
		if(exact)
		{
			bool ssym = false, santi = false, sdiag = false;
			VMUST_RETURN("predicates on a rescaled matrix", Matrix S(sc); ssym = S.Symmetric(); santi = S.Antisymmetric(); sdiag = S.Diagonal());
			c.cls("predicates_after_power_of_two_scaling");
			VCHECK(ssym == sym && santi == anti && sdiag == diag, "after multiplying every entry by 2^" << e2 << ": Symmetric/Antisymmetric/Diagonal = " << ssym << "/" << santi << "/" << sdiag << ", definitions " << sym << "/" << anti << "/" << diag);
		}
	}
	c.cls(sym ? "sym_true" : "sym_false");
	c.cls(anti ? "anti_true" : "anti_false");
	c.cls(diag ? "diag_true" : "diag_false");
	VCHECK((int) T.Rows() == n && (int) T.Columns() == m, "Transpose shape " << T.Rows() << "x" << T.Columns());
	VCHECK((int) TT.Rows() == m && (int) TT.Columns() == n, "double transpose shape");
	long double ss = 0;
	for(int i = 0; i < m; i++)
		for(int j = 0; j < n; j++)
		{
			VCHECK(T[j][i] == a[i][j], "Transpose entry (" << j << "," << i << ")");
			VCHECK(TT[i][j] == a[i][j], "transposition is not an involution at (" << i << "," << j << ")");
			ss += (long double) a[i][j] * a[i][j];
		}
	VCLOSE(c, "norm", norm, (double) sqrtl(ss), 4.0 * (m * n + 2) * EPS * (double) sqrtl(ss), "Frobenius norm");
	VCHECK((A == A) && (A == Matrix(a)), "operator== not reflexive");
	{
		// ... and it tells matrices apart: one perturbed entry, a different shape with the same leading block, the transposed non-square shape
		Rows b = a;
		int pi = (int) c.s.range(0, m - 1), pj = (int) c.s.range(0, n - 1);
		b[(size_t) pi][(size_t) pj] = (b[(size_t) pi][(size_t) pj] == 0) ? 1.0 : std::nextafter(b[(size_t) pi][(size_t) pj], 1e308);
		bool eq1 = true, eq2 = true, eq3 = true, eq4 = true;
		Rows wider = a, taller = a;
		for(auto& r : wider)
			r.push_back(0.0);
		taller.push_back(std::vector<double>((size_t) n, 0.0));
		VMUST_RETURN("operator== on different matrices", eq1 = (A == Matrix(b)); eq2 = (A == Matrix(wider)) || (Matrix(wider) == A); eq3 = (A == Matrix(taller)) || (Matrix(taller) == A); eq4 = (m != n) && (A == T));
		VCHECK(!eq1, "operator== is true for matrices that differ in entry (" << pi << "," << pj << ") by one unit in the last place");
		VCHECK(!eq2 && !eq3, "operator== is true for matrices of different shape (" << m << "x" << n << " vs one more column / row of zeros)");
		VCHECK(!eq4, "operator== is true for a non-square matrix and its transpose");
	}
	// Trace
	if(sq)
	{
		double tr = 0;
		VMUST_RETURN("Trace of a square matrix", tr = A.Trace());
		long double ref = 0, mag = 0;
		for(int i = 0; i < m; i++)
		{
			ref += a[i][i];
			mag += fabsl(a[i][i]);
		}
		if(emode == 0)
			VCHECK(tr == (double) ref, "Trace=" << tr << " expected " << (double) ref);
		else
			VCLOSE(c, "trace", tr, (double) ref, 2.0 * (m + 1) * EPS * (double) mag, "Trace");
	}
	else
		VMUST_EXIT("Trace of a non-square matrix", double t = A.Trace(); (void) t);
	// Return_Row / Return_Column / Sub_Matrix / Delete_*
	int ri = (int) c.s.range(0, m - 1), cj = (int) c.s.range(0, n - 1);
	Vector row, col;
	VMUST_RETURN("Return_Row/Column", row = A.Return_Row(ri); col = A.Return_Column(cj));
	VCHECK((int) row.Size() == n && (int) col.Size() == m, "Return_Row/Column sizes");
	for(int j = 0; j < n; j++)
		VCHECK(row[j] == a[ri][j], "Return_Row(" << ri << ")[" << j << "]");
	for(int i = 0; i < m; i++)
		VCHECK(col[i] == a[i][cj], "Return_Column(" << cj << ")[" << i << "]");
	if(m >= 2 && n >= 2)
	{
		Matrix S, DR(A), DC(A);
		VMUST_RETURN("Sub_Matrix/Delete", S = A.Sub_Matrix(ri, cj); DR.Delete_Row(ri); DC.Delete_Column(cj));
		VCHECK((int) S.Rows() == m - 1 && (int) S.Columns() == n - 1, "Sub_Matrix shape");
		VCHECK((int) DR.Rows() == m - 1 && (int) DR.Columns() == n && (int) DC.Rows() == m && (int) DC.Columns() == n - 1, "Delete_Row/Column shapes");
		for(int i = 0; i < m; i++)
			for(int j = 0; j < n; j++)
			{
				int i2 = i < ri ? i : i - 1, j2 = j < cj ? j : j - 1;
				if(i != ri && j != cj)
					VCHECK(S[i2][j2] == a[i][j], "Sub_Matrix(" << ri << "," << cj << ") entry (" << i2 << "," << j2 << ")");
				if(i != ri)
					VCHECK(DR[i2][j] == a[i][j], "Delete_Row entry");
				if(j != cj)
					VCHECK(DC[i][j2] == a[i][j], "Delete_Column entry");
			}
	}
	// scalar multiplication and division distribute over entries
	double sc = emode == 0 ? c.s.small_int(9) : c.s.mixed(-4, 4);
	if(sc == 0)
		sc = 2;
	Matrix P1, P2, P3, Q1, Q2;
	VMUST_RETURN("scalar product/division", P1 = A.Product(sc); P2 = A * sc; P3 = sc * A; Q1 = A.Division(sc); Q2 = A / sc);
	for(int i = 0; i < m; i++)
		for(int j = 0; j < n; j++)
		{
			VCHECK(P1[i][j] == a[i][j] * sc && P2[i][j] == P1[i][j] && P3[i][j] == P1[i][j], "scalar product at (" << i << "," << j << ")");
			VCHECK(Q1[i][j] == a[i][j] / sc && Q2[i][j] == Q1[i][j], "scalar division at (" << i << "," << j << ")");
		}
	// Resize / Assign keep the shape invariant
	int r2 = (int) c.s.range(1, 8), c2 = (int) c.s.range(1, 8);
	Matrix Z(A), Y(A);
	VMUST_RETURN("Resize/Assign", Z.Resize(r2, c2); Y.Assign(r2, c2, sc));
	VCHECK((int) Z.Rows() == r2 && (int) Z.Columns() == c2 && (int) Y.Rows() == r2 && (int) Y.Columns() == c2, "Resize/Assign shape");
	for(int i = 0; i < r2; i++)
		for(int j = 0; j < c2; j++)
		{
			double expect = (i < m && j < n) ? a[i][j] : 0.0;
			VCHECK(Z[i][j] == expect, "Resize entry (" << i << "," << j << ") = " << Z[i][j] << " expected " << expect);
			VCHECK(Y[i][j] == sc, "Assign entry");
		}
	Matrix ZT;
	VMUST_RETURN("Transpose after Resize", ZT = Z.Transpose());
	VCHECK((int) ZT.Rows() == c2 && (int) ZT.Columns() == r2, "Transpose after Resize");
}

VCLAUSE(block_constructor, 400, 8000, 200000, "block rows/columns have different sizes (non-uniform partition)")
{
	int br = (int) c.s.range(1, 3), bc = (int) c.s.range(1, 3);
	std::vector<int> rh(br), cw(bc);
	for(auto& x : rh)
		x = (int) c.s.range(1, 3);
	for(auto& x : cw)
		x = (int) c.s.range(1, 3);
	bool uniform = true;
	for(auto x : rh)
		if(x != rh[0])
			uniform = false;
	for(auto x : cw)
		if(x != cw[0])
			uniform = false;
	if(!uniform || br != bc)
		c.nt();
	int R = 0, C = 0;
	for(auto x : rh)
		R += x;
	for(auto x : cw)
		C += x;
	Rows full = gen_entries(c.s, R, C, 0);
	std::vector<std::vector<Matrix>> blocks(br);
	int ro = 0;
	for(int bi = 0; bi < br; bi++)
	{
		int co = 0;
		for(int bj = 0; bj < bc; bj++)
		{
			Rows blk(rh[bi], std::vector<double>(cw[bj]));
			for(int i = 0; i < rh[bi]; i++)
				for(int j = 0; j < cw[bj]; j++)
					blk[i][j] = full[ro + i][co + j];
			blocks[bi].push_back(Matrix(blk));
			co += cw[bj];
		}
		ro += rh[bi];
	}
	VLOG(c, "block partition rows=" << br << " cols=" << bc << " full(" << R << "x" << C << ")=" << show(full));
	Matrix M;
	VMUST_RETURN("block constructor", M = Matrix(blocks));
	VCHECK((int) M.Rows() == R && (int) M.Columns() == C, "block matrix shape " << M.Rows() << "x" << M.Columns());
	for(int i = 0; i < R; i++)
		for(int j = 0; j < C; j++)
			VCHECK(M[i][j] == full[i][j], "block matrix entry (" << i << "," << j << ") = " << M[i][j] << " expected " << full[i][j]);
	// inconsistent block dimensions must stop
	if(c.s.chance(0.3) && br * bc >= 2)
	{
		int bi = (int) c.s.range(0, br - 1), bj = (int) c.s.range(0, bc - 1);
		bool rowbad = bc >= 2 ? c.s.coin() : false;
		if(br < 2)
			rowbad = true;
		Rows blk(rh[bi] + (rowbad ? 1 : 0), std::vector<double>(cw[bj] + (rowbad ? 0 : 1), 1.0));
		blocks[bi][bj] = Matrix(blk);
		c.cls("bad_blocks");
		VMUST_EXIT("block constructor with inconsistent blocks", Matrix X(blocks); (void) X);
	}
}

VCLAUSE(vector_misc, 120, 8000, 200000, "dimension other than 3, or mixed magnitudes")
{
	int n = (int) c.s.range(1, 8);
	int emode = c.s.pick({1, 1});
	Rows a = gen_entries(c.s, 1, n, emode);
	double sc = emode == 0 ? c.s.small_int(9) : c.s.mixed(-4, 4);
	if(sc == 0)
		sc = 3;
	if(n != 3 || emode == 1)
		c.nt();
	VLOG(c, "v=" << show(a[0]) << " s=" << sc);
	Vector V(a[0]), P1, P2, Q, Nd;
	double nrm = 0;
	VMUST_RETURN("vector scalar ops", P1 = V * sc; P2 = sc * V; Q = V / sc; nrm = V.Norm());
	long double ss = 0;
	for(int i = 0; i < n; i++)
	{
		VCHECK(P1[i] == a[0][i] * sc && P2[i] == P1[i], "vector scalar product at " << i);
		VCHECK(Q[i] == a[0][i] / sc, "vector scalar division at " << i);
		ss += (long double) a[0][i] * a[0][i];
	}
	VCLOSE(c, "vnorm", nrm, (double) sqrtl(ss), 4.0 * (n + 2) * EPS * (double) sqrtl(ss), "Norm");
	if(ss > 0 && std::isfinite((double) ss) && (double) ss > 1e-300)
	{
		Vector W(V);
		VMUST_RETURN("Normalize", Nd = V.Normalized(); W.Normalize());
		for(int i = 0; i < n; i++)
		{
			VCLOSE(c, "normalized", Nd[i], (double) (a[0][i] / sqrtl(ss)), 8.0 * (n + 2) * EPS, "Normalized component " << i);
			VCHECK(W[i] == Nd[i], "Normalize() and Normalized() differ at " << i);
		}
	}
	VCHECK(V == Vector(a[0]), "operator== not reflexive");
	{
		std::vector<double> b = a[0], longer = a[0];
		size_t pi = (size_t) c.s.range(0, (long) b.size() - 1);
		b[pi]	  = (b[pi] == 0) ? 1.0 : std::nextafter(b[pi], 1e308);
		longer.push_back(0.0);
		bool eq1 = true, eq2 = true;
		VMUST_RETURN("operator== on different vectors", eq1 = (V == Vector(b)); eq2 = (V == Vector(longer)) || (Vector(longer) == V));
		VCHECK(!eq1, "operator== is true for vectors that differ in component " << pi << " by one unit in the last place");
		VCHECK(!eq2, "operator== is true for vectors of different dimension");
	}
	int r2 = (int) c.s.range(1, 8);
	Vector Z(V), Y(V);
	VMUST_RETURN("Vector Resize/Assign", Z.Resize(r2); Y.Assign(r2, sc));
	VCHECK((int) Z.Size() == r2 && (int) Y.Size() == r2, "Resize/Assign size");
	for(int i = 0; i < r2; i++)
	{
		VCHECK(Z[i] == (i < n ? a[0][i] : 0.0), "Resize component " << i);
		VCHECK(Y[i] == sc, "Assign component");
	}
	// after Resize the dimension used by the operators is the new one
	Vector S;
	VMUST_RETURN("sum after Resize", S = Z + Y);
	VCHECK((int) S.Size() == r2, "size after Resize");
}
