// C15 QR factors and eigenpairs satisfy their defining equations
#include "../engine/harness.hpp"
#include "../engine/lacommon.hpp"

#include "libphysica/Linear_Algebra.hpp"

using namespace vf;
using libphysica::Matrix;
using libphysica::Vector;
const char* const vf::kPropertyId = "C15";

namespace
{
// eigenvalues of a symmetric matrix by cyclic Jacobi rotations in long double
std::vector<long double> jacobi_eigenvalues(LRows a)
{
	int n = (int) a.size();
	for(int sweep = 0; sweep < 100; sweep++)
	{
		long double off = 0, dia = 0;
		for(int p = 0; p < n; p++)
		{
			dia += a[(size_t) p][(size_t) p] * a[(size_t) p][(size_t) p];
			for(int q = p + 1; q < n; q++)
				off += a[(size_t) p][(size_t) q] * a[(size_t) p][(size_t) q];
		}
		if(off <= 1e-70L * dia || off == 0)	  // relative to the matrix: any overall scale
			break;
		for(int p = 0; p < n; p++)
			for(int q = p + 1; q < n; q++)
			{
				if(a[(size_t) p][(size_t) q] == 0)
					continue;
				long double th = (a[(size_t) q][(size_t) q] - a[(size_t) p][(size_t) p]) / (2 * a[(size_t) p][(size_t) q]);
				long double t  = (th >= 0 ? 1 : -1) / (fabsl(th) + sqrtl(th * th + 1));
				long double cs = 1 / sqrtl(t * t + 1), sn = t * cs;
				for(int k = 0; k < n; k++)
				{
					long double akp = a[(size_t) k][(size_t) p], akq = a[(size_t) k][(size_t) q];
					a[(size_t) k][(size_t) p] = cs * akp - sn * akq;
					a[(size_t) k][(size_t) q] = sn * akp + cs * akq;
				}
				for(int k = 0; k < n; k++)
				{
					long double apk = a[(size_t) p][(size_t) k], aqk = a[(size_t) q][(size_t) k];
					a[(size_t) p][(size_t) k] = cs * apk - sn * aqk;
					a[(size_t) q][(size_t) k] = sn * apk + cs * aqk;
				}
			}
	}
	std::vector<long double> ev;
	for(int i = 0; i < n; i++)
		ev.push_back(a[(size_t) i][(size_t) i]);
	return ev;
}
// symmetric matrix Q diag(lambda) Q^T with |lambda_{i+1}/lambda_i| in [0.1,0.8], random signs; Q random orthogonal, identity or block diagonal
struct Sym
{
	Rows a;
	std::vector<long double> lam;
	std::string kind;
	int n;
};
Sym gen_symmetric(Src& s)
{
	Sym S;
	int n = (int) s.range(1, 7);
	S.n	  = n;
	S.lam.resize((size_t) n);
	long double mag = powl(10.0L, (long double) (s.chance(0.15) ? s.sign() * s.uniform(3, 30) : s.uniform(-3, 3)));   // any overall scale
	for(int i = 0; i < n; i++)
	{
		S.lam[(size_t) i] = mag * (s.coin() ? 1 : -1);
		mag *= (long double) s.uniform(0.1, 0.8);
	}
	LRows q;
	int qk = s.pick({4, 2, 2});
	if(qk == 0)
	{
		q	   = gen_orthogonal(s, n, 3 * n);
		S.kind = "random_orthogonal";
	}
	else if(qk == 1)
	{
		q	   = l_identity((size_t) n);
		S.kind = "diagonal";
		// permute the diagonal
		for(int i = n - 1; i > 0; i--)
			std::swap(S.lam[(size_t) i], S.lam[(size_t) s.range(0, i)]);
	}
	else
	{
		// block diagonal: rotations inside disjoint 2x2 blocks only (eigenvectors with exact zero components)
		q = l_identity((size_t) n);
		for(int i = 0; i + 1 < n; i += 2)
		{
			// any angle; sometimes a tiny one: nearly decoupled eigenvalues, which an unshifted QR iteration first has to re-order (finding D27)
			int tk		   = s.pick({6, 2, 1});
			long double th = tk == 0 ? (long double) s.uniform(0, 6.283185307179586) : (long double) (s.sign() * std::pow(10.0, tk == 1 ? s.uniform(-18, -1) : s.uniform(-300, -18)));
			long double cs = cosl(th), sn = sinl(th);
			q[(size_t) i][(size_t) i] = cs;
			q[(size_t) i][(size_t) i + 1] = -sn;
			q[(size_t) i + 1][(size_t) i] = sn;
			q[(size_t) i + 1][(size_t) i + 1] = cs;
		}
		for(int i = n - 1; i > 0; i--)
			std::swap(S.lam[(size_t) i], S.lam[(size_t) s.range(0, i)]);
		S.kind = "block_diagonal";
		for(int i = 0; i + 1 < n; i += 2)
			if(fabsl(q[(size_t) i + 1][(size_t) i]) < 1e-3L && q[(size_t) i + 1][(size_t) i] != 0)
				S.kind = "block_diagonal_nearly_decoupled";
	}
	LRows d = l_identity((size_t) n);
	for(int i = 0; i < n; i++)
		d[(size_t) i][(size_t) i] = S.lam[(size_t) i];
	LRows a = l_mul(l_mul(q, d), l_transpose(q));
	S.a		= to_d(a);
	// exactly symmetric in double
	for(int i = 0; i < n; i++)
		for(int j = 0; j < i; j++)
			S.a[(size_t) i][(size_t) j] = S.a[(size_t) j][(size_t) i];
	return S;
}
// "block-diagonal matrices and eigenvectors with zero components" does not say that the blocks are contiguous: a simultaneous permutation of rows
// and columns interleaves them (indices {0,2} and {1,3} couple, the first sub-diagonal is exactly zero). Called after the last other draw of a clause,
// so that saved cases of the earlier decoder keep their meaning (an exhausted sequence leaves the matrix as it is).
void maybe_interleave(Src& s, Sym& S)
{
	if(S.n < 3 || S.kind.compare(0, 14, "block_diagonal") != 0 || !s.chance(0.4))
		return;
	int n = S.n;
	std::vector<int> p((size_t) n);
	for(int i = 0; i < n; i++)
		p[(size_t) i] = i;
	if(s.coin())
	{	// odd-even interleave: 0,2,4,... then 1,3,5,...
		int k = 0;
		for(int i = 0; i < n; i += 2)
			p[(size_t) i] = k++;
		for(int i = 1; i < n; i += 2)
			p[(size_t) i] = k++;
	}
	else
		for(int i = n - 1; i > 0; i--)
			std::swap(p[(size_t) i], p[(size_t) s.range(0, i)]);
	Rows b = S.a;
	for(int i = 0; i < n; i++)
		for(int j = 0; j < n; j++)
			b[(size_t) p[(size_t) i]][(size_t) p[(size_t) j]] = S.a[(size_t) i][(size_t) j];
	S.a = b;
	S.kind += "_interleaved";
}
}	// namespace

VCLAUSE(qr_decomposition, 200, 8000, 160000, "n >= 3 and the matrix is not diagonal, or the condition number exceeds 1e3, or a leading entry of a working column is exactly zero")
{
	Src& s = c.s;
	int n  = (int) s.range(1, 7);
	Rows a;
	double cond = 1;
	int kind = s.pick({4, 2, 2, 2, 2});
	if(kind == 4)
	{
		// nearly triangular: a well-conditioned upper triangle plus a lower part smaller by 1e-16..1e-3 (sub-diagonal entries whose squares
		// vanish beside the diagonal are still part of the matrix)
		double g = std::pow(10.0, s.uniform(-16, -3)), sc = std::pow(10.0, s.uniform(-3, 3));
		a.assign((size_t) n, std::vector<double>((size_t) n, 0.0));
		for(int i = 0; i < n; i++)
			for(int j = 0; j < n; j++)
				a[(size_t) i][(size_t) j] = sc * (j > i ? s.uniform(-1, 1) : (j == i ? s.sign() * s.uniform(2, 4) : g * s.uniform(-1, 1)));
		c.cls("nearly_upper_triangular");
	}
	else if(kind == 0)
	{
		LRows q1 = gen_orthogonal(s, n, 3 * n), q2 = gen_orthogonal(s, n, 3 * n), sg = l_identity((size_t) n);
		double u = s.uniform(0, 6), sc = std::pow(10.0, s.uniform(-3, 3));
		cond = std::pow(10.0, u);
		for(int i = 0; i < n; i++)
			sg[(size_t) i][(size_t) i] = sc * powl(10.0L, -(long double) u * (n == 1 ? 0 : (long double) i / (n - 1)));
		a = to_d(l_mul(l_mul(q1, sg), q2));
		c.cls("graded_condition");
	}
	else if(kind == 1)
	{
		// small-integer matrices with zeros: zero pivots in the Householder steps
		a = gen_entries(s, n, n, 0);
		for(auto& r : a)
			for(auto& v : r)
				if(s.chance(0.35))
					v = 0;
		c.cls("integer_with_zeros");
	}
	else if(kind == 2)
	{
		// weighted permutation or triangular
		a.assign((size_t) n, std::vector<double>((size_t) n, 0.0));
		std::vector<int> p((size_t) n);
		for(int i = 0; i < n; i++)
			p[(size_t) i] = i;
		for(int i = n - 1; i > 0; i--)
			std::swap(p[(size_t) i], p[(size_t) s.range(0, i)]);
		bool tri = s.coin();
		for(int i = 0; i < n; i++)
		{
			a[(size_t) i][(size_t) p[(size_t) i]] = s.sign() * (double) s.range(1, 9);
			if(tri)
				for(int j = i + 1; j < n; j++)
					a[(size_t) i][(size_t) j] += s.small_int(5);
		}
		c.cls(tri ? "permuted_plus_upper" : "weighted_permutation");
	}
	else
	{
		Sym S = gen_symmetric(s);
		a	  = S.a;
		n	  = S.n;
		c.cls("symmetric");
	}
	// non-singular only
	LRows L = to_l(a), inv;
	if(!l_inverse(L, inv))
		throw Discard();
	long double kappa = l_frob(L) * l_frob(inv);
	if(kappa > 1e7L)
		throw Discard();
	bool zero_lead = false;
	for(int i = 0; i < n; i++)
		if(a[(size_t) i][0] == 0 || a[(size_t) i][(size_t) i] == 0)
			zero_lead = true;
	bool diagonal = true;
	for(int i = 0; i < n; i++)
		for(int j = 0; j < n; j++)
			if(i != j && a[(size_t) i][(size_t) j] != 0)
				diagonal = false;
	if((n >= 3 && !diagonal) || kappa > 1e3L || zero_lead)
		c.nt();
	VLOG(c, "QR of " << n << "x" << n << " cond_F=" << (double) kappa << " A=" << show(a));
	std::pair<Matrix, Matrix> qr;
	Matrix A(a);
	VMUST_RETURN("QR_Decomposition of a non-singular matrix", qr = libphysica::QR_Decomposition(A));
	const Matrix &Q = qr.first, &R = qr.second;
	VCHECK((int) Q.Rows() == n && (int) Q.Columns() == n && (int) R.Rows() == n && (int) R.Columns() == n, "shapes of Q and R");
	long double nA = l_frob(L), e1 = 0, e2 = 0;
	for(int i = 0; i < n; i++)
		for(int j = 0; j < n; j++)
		{
			VCHECK(std::isfinite(Q[i][j]) && std::isfinite(R[i][j]), "non-finite entry in Q or R at (" << i << "," << j << ")");
			long double qr_ij = 0, qq = 0;
			for(int k = 0; k < n; k++)
			{
				qr_ij += (long double) Q[i][k] * R[k][j];
				qq += (long double) Q[i][k] * Q[j][k];
			}
			e1 += (qr_ij - L[(size_t) i][(size_t) j]) * (qr_ij - L[(size_t) i][(size_t) j]);
			e2 += (qq - (i == j)) * (qq - (i == j));
			if(i > j)
				VCHECK(R[i][j] == 0.0, "R is not upper triangular: R(" << i << "," << j << ")=" << R[i][j]);
		}
	VCLOSE(c, "QR_reproduces_M", (double) (sqrtl(e1) / nA), 0.0, 64.0 * n * EPS, "||Q R - M||_F / ||M||_F");
	VCLOSE(c, "Q_orthogonal", (double) sqrtl(e2), 0.0, 64.0 * n * EPS, "||Q Q^T - I||_F");
}

VCLAUSE(eigenvalues, 200, 5000, 100000, "n >= 3 and the matrix is not diagonal, or some eigenvalues are negative")
{
	Src& s = c.s;
	Sym S  = gen_symmetric(s);
	maybe_interleave(s, S);
	int n  = S.n;
	bool neg = false;
	for(auto l : S.lam)
		if(l < 0)
			neg = true;
	if((n >= 3 && S.kind != "diagonal") || neg)
		c.nt();
	c.cls(S.kind.c_str());
	VLOG(c, "Eigenvalues of symmetric " << n << "x" << n << " kind=" << S.kind << " A=" << show(S.a));
	std::vector<double> ev;
	Matrix A(S.a);
	VMUST_RETURN("Eigenvalues of a symmetric matrix with separated spectrum", ev = libphysica::Eigenvalues(A));
	VCHECK((int) ev.size() == n, "returned " << ev.size() << " eigenvalues for n=" << n);
	std::vector<long double> ref = jacobi_eigenvalues(to_l(S.a));
	long double lmax = 0, tr = 0, det = 1;
	for(auto l : ref)
		lmax = std::max(lmax, fabsl(l));
	// trace and determinant of the matrix itself (not of the reference spectrum): independent of both eigenvalue computations
	long double trr = 0, detr = l_det(to_l(S.a));
	for(int i = 0; i < n; i++)
		trr += (long double) S.a[(size_t) i][(size_t) i];
	// multiset comparison: sort both by value
	std::vector<long double> got(ev.begin(), ev.end()), built(S.lam.begin(), S.lam.end());
	std::sort(got.begin(), got.end());
	std::sort(ref.begin(), ref.end());
	std::sort(built.begin(), built.end());
	// the reference must reproduce the spectrum the matrix was built from (rounding Q D Q^T to double moves it by <= n eps |lambda|max)
	for(int i = 0; i < n; i++)
		VCHECK(fabsl(ref[(size_t) i] - built[(size_t) i]) <= 8.0L * n * EPS * lmax, "harness: Jacobi reference " << (double) ref[(size_t) i] << " disagrees with the constructed eigenvalue " << (double) built[(size_t) i]);
	// Tolerance: an off-diagonal remainder eps_off moves an eigenvalue by eps_off^2/gap only; what remains is the rounding of up to 200
	// orthogonal similarity transforms, each n*eps*|lambda|max at worst: 200*7*eps = 3e-13. Measured worst on the repaired tree: 1.3e-14.
	double evtol = 1e-12 * (double) lmax;
	long double relsum = 0;
	for(int i = 0; i < n; i++)
	{
		VCLOSE(c, "eigenvalue_vs_jacobi", (double) got[(size_t) i], (double) ref[(size_t) i], evtol, "sorted eigenvalue " << i);
		tr += got[(size_t) i];
		det *= got[(size_t) i];
		relsum += evtol / fabsl(ref[(size_t) i]);
	}
	VCLOSE(c, "sum_is_trace", (double) tr, (double) trr, evtol * n, "sum of the eigenvalues vs the trace of the matrix");
	// first-order propagation of the per-eigenvalue tolerance into the product
	VCLOSE(c, "product_is_determinant", (double) (det / detr), 1.0, (double) (2 * relsum) + 64 * n * EPS, "product of the eigenvalues vs the determinant of the matrix (pivoted LU in long double)");
}

// Eigensystem / Eigenvectors may fail to terminate: every case runs in a forked child under a watchdog
VCLAUSE_ISOLATED(eigensystem, 200, 2500, 50000, "n >= 3 and the matrix is not diagonal, or an eigenvector has exactly zero components (diagonal / block diagonal)", 10.0)
{
	Src& s = c.s;
	Sym S  = gen_symmetric(s);
	int n  = S.n;
	if((n >= 3 && S.kind != "diagonal") || S.kind != "random_orthogonal")
		c.nt();
	c.cls(S.kind.c_str());
	bool only_vectors = s.coin();
	maybe_interleave(s, S);
	if(S.kind.find("_interleaved") != std::string::npos)
		c.cls(S.kind.c_str());
	VLOG(c, (only_vectors ? "Eigenvectors" : "Eigensystem") << " of symmetric " << n << "x" << n << " kind=" << S.kind << " A=" << show(S.a));
	Matrix A(S.a);
	std::vector<double> vals;
	std::vector<Vector> vecs;
	if(only_vectors)
		VMUST_RETURN("Eigenvectors of a symmetric matrix with separated spectrum", vecs = libphysica::Eigenvectors(A));
	else
	{
		std::pair<std::vector<double>, std::vector<Vector>> es;
		VMUST_RETURN("Eigensystem of a symmetric matrix with separated spectrum", es = libphysica::Eigensystem(A));
		vals = es.first;
		vecs = es.second;
		VCHECK((int) vals.size() == n, "returned " << vals.size() << " eigenvalues");
	}
	VCHECK((int) vecs.size() == n, "returned " << vecs.size() << " eigenvectors for n=" << n);
	std::vector<long double> ref = jacobi_eigenvalues(to_l(S.a));
	long double lmax = 0;
	for(auto l : ref)
		lmax = std::max(lmax, fabsl(l));
	std::vector<int> used((size_t) n, 0);
	for(int k = 0; k < n; k++)
	{
		const Vector& v = vecs[(size_t) k];
		VCHECK((int) v.Size() == n, "eigenvector " << k << " has dimension " << v.Size());
		long double nn = 0;
		for(int i = 0; i < n; i++)
		{
			VCHECK(std::isfinite(v[i]), "eigenvector " << k << " component " << i << " = " << v[i]);
			nn += (long double) v[i] * v[i];
		}
		VCLOSE(c, "unit_norm", (double) sqrtl(nn), 1.0, 16 * EPS, "norm of eigenvector " << k);
		// Rayleigh quotient as the eigenvalue belonging to v (the returned value when available)
		long double rq = 0;
		std::vector<long double> mv((size_t) n, 0);
		for(int i = 0; i < n; i++)
		{
			for(int j = 0; j < n; j++)
				mv[(size_t) i] += (long double) S.a[(size_t) i][(size_t) j] * v[j];
			rq += mv[(size_t) i] * v[i];
		}
		rq /= nn;
		long double lam = only_vectors ? rq : (long double) vals[(size_t) k];
		long double res = 0;
		for(int i = 0; i < n; i++)
			res += (mv[(size_t) i] - lam * v[i]) * (mv[(size_t) i] - lam * v[i]);
		// "within rounding": inverse iteration and accumulated transformations both reach a few n*eps; 1e-12 leaves three orders of magnitude
		// over the measured worst (4.8e-16) and is four orders below the former 1e-8, which admitted eigenvectors mixed at the 1e-3 level
		VCLOSE(c, "residual", (double) (sqrtl(res) / lmax), 0.0, 1e-12, "||M v - lambda v|| / |lambda|_max for pair " << k << " (lambda=" << (double) lam << ")");
		// lambda matches an eigenvalue of the reference; every eigenvalue must be covered exactly once
		int best = -1;
		long double bd = 1e300L;
		for(int i = 0; i < n; i++)
			if(fabsl(ref[(size_t) i] - lam) < bd)
			{
				bd	 = fabsl(ref[(size_t) i] - lam);
				best = i;
			}
		VCLOSE(c, "eigenvalue_matches_reference", (double) lam, (double) ref[(size_t) best], 1e-12 * (double) lmax, "eigenvalue of pair " << k);
		used[(size_t) best]++;
	}
	for(int i = 0; i < n; i++)
		VCHECK(used[(size_t) i] == 1, "eigenvalue " << (double) ref[(size_t) i] << " of the matrix is represented by " << used[(size_t) i] << " of the returned pairs (each must appear exactly once)");
}
