// C14 Monte Carlo integrators sample only inside the region and forget earlier calls
#include "../engine/harness.hpp"

#include <functional>

#include "libphysica/Integration.hpp"

namespace libphysica
{
namespace verif
{
extern bool mc_seed_override;	// hook (guard LIBPHYSICA_VERIF): fixes the seed of the per-call generators
extern unsigned int mc_seed;
}	// namespace verif
}	// namespace libphysica

using namespace vf;
const char* const vf::kPropertyId = "C14";

namespace
{
const char* kMC[] = {"Monte-Carlo", "Vegas", "Miser"};
typedef std::function<double(std::vector<double>&, const double)> MCF;

struct Call
{
	int d;
	std::vector<double> region;	  // {lower..., upper...}
	int ncalls;
	int method;
	unsigned seed;
	int family;	  // integrand family
	std::vector<double> par;
};
void gen_region(Src& s, int d, std::vector<double>& region)
{
	region.assign((size_t) 2 * d, 0.0);
	for(int i = 0; i < d; i++)
	{
		double w  = std::pow(10.0, s.uniform(-3, 3));
		double lo = s.pick({1, 2}) == 0 ? 0.0 : s.sign() * w * std::pow(10.0, s.uniform(-1, 2));
		region[(size_t) i]		 = lo;
		region[(size_t) (d + i)] = lo + w;
	}
}
// integrand families in unit-cube coordinates u_i = (x_i-lo_i)/w_i, with closed-form mean and second moment
// 0: constant  1: product of exponentials  2: product of off-centre Gaussians  3: 1 + sum c_i u_i + c*prod u_i  4: bump supported in a corner (flat zero elsewhere)
double eval_family(const Call& k, const std::vector<double>& x)
{
	int d = k.d;
	std::vector<double> u((size_t) d);
	for(int i = 0; i < d; i++)
		u[(size_t) i] = (x[(size_t) i] - k.region[(size_t) i]) / (k.region[(size_t) (d + i)] - k.region[(size_t) i]);
	switch(k.family)
	{
		case 0: return k.par[0];
		case 1:
		{
			double v = k.par[0];
			for(int i = 0; i < d; i++)
				v *= std::exp(-k.par[(size_t) (1 + i)] * u[(size_t) i]);
			return v;
		}
		case 2:
		{
			double v = k.par[0];
			for(int i = 0; i < d; i++)
			{
				double t = (u[(size_t) i] - k.par[(size_t) (1 + 2 * i)]) / k.par[(size_t) (2 + 2 * i)];
				v *= std::exp(-0.5 * t * t);
			}
			return v;
		}
		case 3:
		{
			double v = 1.0, p = k.par[0];
			for(int i = 0; i < d; i++)
			{
				v += k.par[(size_t) (1 + i)] * u[(size_t) i];
				p *= u[(size_t) i];
			}
			return v + p;
		}
		default:
		{
			// smooth bump in the corner box u_i < par[0], exactly zero outside
			double v = 1.0;
			for(int i = 0; i < d; i++)
			{
				double t = u[(size_t) i] / k.par[0];
				if(t >= 1.0)
					return 0.0;
				v *= (1 - t) * (1 - t) * 3;
			}
			return v;
		}
	}
}
void gen_family(Src& s, Call& k, bool smooth_only)
{
	k.family = smooth_only ? (int) s.range(1, 3) : s.pick({2, 2, 2, 2, 1.5});
	k.par.clear();
	int d = k.d;
	switch(k.family)
	{
		case 0: k.par = {s.sign() * std::pow(10.0, s.uniform(-6, 6))}; break;
		case 1:
			k.par.push_back(std::pow(10.0, s.uniform(-3, 3)));
			for(int i = 0; i < d; i++)
				k.par.push_back(s.uniform(-2, 2));
			break;
		case 2:
			k.par.push_back(std::pow(10.0, s.uniform(-3, 3)));
			{
				// sometimes one axis carries a narrow peak (1-3 % of the width, the other axes stay wide): a few per cent of the points still
				// land on it, enough for the error to be Gaussian, and most of that axis is numerically empty
				int narrow = s.chance(0.25) ? (int) s.range(0, d - 1) : -1;
				for(int i = 0; i < d; i++)
				{
					k.par.push_back(s.uniform(0.1, 0.9));	 // centre (off-centre)
					if(i == narrow)
						k.par.push_back(s.uniform(0.01, 0.03));
					else
						k.par.push_back(s.uniform(narrow >= 0 ? 0.5 : (d <= 2 ? 0.15 : 0.3), 1.0));	  // width: keeps the effective sample count >= ~50
				}
				if(narrow >= 0)
					k.ncalls = std::max(k.ncalls, 4000);
			}
			break;
		case 3:
			k.par.push_back(s.uniform(-2, 2));
			for(int i = 0; i < d; i++)
				k.par.push_back(s.uniform(-0.5, 1.0));
			break;
		default: k.par = {s.uniform(0.3, 0.7)}; break;
	}
}
// exact mean and second moment over the unit cube (long double)
void moments(const Call& k, long double& m1, long double& m2)
{
	int d = k.d;
	switch(k.family)
	{
		case 0:
			m1 = k.par[0];
			m2 = (long double) k.par[0] * k.par[0];
			return;
		case 1:
		{
			m1 = k.par[0];
			m2 = (long double) k.par[0] * k.par[0];
			for(int i = 0; i < d; i++)
			{
				long double a = k.par[(size_t) (1 + i)];
				m1 *= fabsl(a) < 1e-12L ? 1.0L : -expm1l(-a) / a;
				m2 *= fabsl(a) < 1e-12L ? 1.0L : -expm1l(-2 * a) / (2 * a);
			}
			return;
		}
		case 2:
		{
			m1 = k.par[0];
			m2 = (long double) k.par[0] * k.par[0];
			for(int i = 0; i < d; i++)
			{
				long double mu = k.par[(size_t) (1 + 2 * i)], sg = k.par[(size_t) (2 + 2 * i)];
				m1 *= sg * sqrtl(M_PIl / 2) * (erfl((1 - mu) / (sg * sqrtl(2.0L))) - erfl((0 - mu) / (sg * sqrtl(2.0L))));
				long double s2 = sg / sqrtl(2.0L);
				m2 *= s2 * sqrtl(M_PIl / 2) * (erfl((1 - mu) / (s2 * sqrtl(2.0L))) - erfl((0 - mu) / (s2 * sqrtl(2.0L))));
			}
			return;
		}
		case 3:
		{
			// f = 1 + sum c_i u_i + p prod u_i
			long double p = k.par[0], sc = 0, sc2 = 0, cross = 0;
			for(int i = 0; i < d; i++)
			{
				long double ci = k.par[(size_t) (1 + i)];
				sc += ci / 2;
				sc2 += ci * ci / 3;
				for(int j = 0; j < i; j++)
					cross += 2 * ci * (long double) k.par[(size_t) (1 + j)] / 4;
			}
			long double pm = powl(0.5L, d), pm2 = powl(1.0L / 3, d);
			m1 = 1 + sc + p * pm;
			// E[(1+L+P)^2] = 1 + 2E[L] + E[L^2] + 2E[P] + 2E[LP] + E[P^2];  E[u_i prod u] = (1/3)(1/2)^(d-1)
			long double ELP = 0;
			for(int i = 0; i < d; i++)
				ELP += (long double) k.par[(size_t) (1 + i)] * (1.0L / 3) * powl(0.5L, d - 1);
			m2 = 1 + 2 * sc + (sc2 + cross) + 2 * p * pm + 2 * p * ELP + p * p * pm2;
			return;
		}
		default:
		{
			long double q = k.par[0];
			// int_0^q 3(1-u/q)^2 du = q ; int_0^q 9(1-u/q)^4 du = 9q/5
			m1 = powl(q, d);
			m2 = powl(9 * q / 5, d);
			return;
		}
	}
}
Call gen_call(Src& s, bool smooth_only, int budget_max)
{
	Call k;
	k.d = (int) s.range(1, 6);
	gen_region(s, k.d, k.region);
	k.ncalls = (int) std::pow(10.0, s.uniform(3, std::log10((double) budget_max)));
	k.method = (int) s.range(0, 2);
	k.seed	 = (unsigned) s.below(4294967296ULL);
	gen_family(s, k, smooth_only);
	return k;
}
struct Recorded
{
	double value = 0;
	long calls	 = 0;
	long outside = 0;
	uint64_t point_hash = 0;
	std::vector<double> first_outside;
};
Recorded run_call(const Call& k)
{
	Recorded r;
	std::vector<double> region = k.region;
	MCF f = [&](std::vector<double>& x, const double) {
		r.calls++;
		bool out = false;
		for(int i = 0; i < k.d; i++)
		{
			double xi = x[(size_t) i];
			if(!(xi >= k.region[(size_t) i] && xi <= k.region[(size_t) (k.d + i)]))
				out = true;
			uint64_t b;
			memcpy(&b, &xi, 8);
			r.point_hash = (r.point_hash ^ b) * 0x100000001b3ULL + 0x9e3779b97f4a7c15ULL;
		}
		if(out)
		{
			if(!r.outside)
				r.first_outside.assign(x.begin(), x.begin() + k.d);
			r.outside++;
		}
		return eval_family(k, x);
	};
	libphysica::verif::mc_seed_override = true;
	libphysica::verif::mc_seed			= k.seed;
	r.value = libphysica::Integrate_MC(f, region, k.ncalls, kMC[k.method]);
	return r;
}
std::string show_call(const Call& k)
{
	std::ostringstream os;
	os << std::setprecision(17) << kMC[k.method] << " d=" << k.d << " ncalls=" << k.ncalls << " seed=" << k.seed << " family=" << k.family << " par=" << show(k.par) << " region=" << show(k.region, 12);
	return os.str();
}
// Vegas stratifies each axis into ng = int((ncalls/2+0.25)^(1/d)) slices and, when 2*ng >= 50, chooses the number of bins as a divisor
// pattern of ng; for 2*ng < 50 strata and the 50 bins are not aligned (matcher of the known finding K2)
bool vegas_strata_misaligned(int ncalls, int d) { return (int) std::pow(ncalls / 2.0 + 0.25, 1.0 / d) < 25; }
double volume(const Call& k)
{
	double v = 1;
	for(int i = 0; i < k.d; i++)
		v *= k.region[(size_t) (k.d + i)] - k.region[(size_t) i];
	return v;
}
}	// namespace

// ---- history independence: must be the FIRST clause (fork-isolated: every case starts in a process that never integrated) ----
VCLAUSE_ISOLATED(history, 200, 2400, 40000, "the history is non-empty and contains a call of a different dimension than the observed call", 120.0)
{
	Src& s	   = c.s;
	Call obs   = gen_call(s, false, 8000);
	int nh	   = (int) s.range(0, 4), nh2 = (int) s.range(1, 3);
	std::vector<Call> H, H2;
	bool other_dim = false;
	for(int i = 0; i < nh; i++)
	{
		Call h = gen_call(s, false, 5000);
		if(s.chance(0.5))
			h.method = obs.method;	 // same method: its statics are the ones that could leak
		if(h.d != obs.d)
			other_dim = true;
		H.push_back(h);
	}
	for(int i = 0; i < nh2; i++)
	{
		Call h = gen_call(s, false, 5000);
		if(s.chance(0.5))
			h.method = obs.method;
		H2.push_back(h);
	}
	if(nh > 0 && other_dim)
		c.nt();
	c.cls(kMC[obs.method]);
	VLOG(c, "observed: " << show_call(obs));
	for(auto& h : H)
		VLOG(c, "  history: " << show_call(h));
	for(auto& h : H2)
		VLOG(c, "  second history: " << show_call(h));
	auto as_vec = [](const Recorded& r) {
		double hh;
		uint64_t b = r.point_hash >> 11;	 // keep it an exactly representable number
		hh		   = (double) b;
		return std::vector<double> {r.value, (double) r.calls, hh, (double) r.outside};
	};
	// (a) pristine process: only the observed call
	std::vector<double> pristine, after2;
	bool ok = run_in_child([&]() { return as_vec(run_call(obs)); }, pristine, 60.0);
	VCHECK(ok && pristine.size() == 4, "observed call failed in a pristine process: " << show_call(obs));
	// (b) this process: history H, then the observed call
	Recorded r1;
	VMUST_RETURN("Integrate_MC history", for(auto& h : H) run_call(h); r1 = run_call(obs));
	std::vector<double> v1 = as_vec(r1);
	VCHECK(same_bits(v1[0], pristine[0]) && v1[1] == pristine[1] && v1[2] == pristine[2],
		   "result depends on earlier calls: after a history of " << nh << " integrations the call returns " << v1[0] << " (" << v1[1] << " evaluations), in a pristine process " << pristine[0] << " (" << pristine[1] << " evaluations); " << show_call(obs));
	// (c) another process with a different history
	ok = run_in_child([&]() { for(auto& h : H2) run_call(h); return as_vec(run_call(obs)); }, after2, 60.0);
	VCHECK(ok && after2.size() == 4, "observed call failed after the second history");
	VCHECK(same_bits(after2[0], pristine[0]) && after2[1] == pristine[1] && after2[2] == pristine[2],
		   "result depends on earlier calls: after a second history of " << nh2 << " integrations the call returns " << after2[0] << ", in a pristine process " << pristine[0] << "; " << show_call(obs));
	// repeating the call itself is also a history
	Recorded r2;
	VMUST_RETURN("Integrate_MC repeated", r2 = run_call(obs));
	VCHECK(same_bits(r2.value, pristine[0]), "the same call repeated immediately returns " << r2.value << " instead of " << pristine[0] << "; " << show_call(obs));
	VCHECK(r1.outside == 0, "points outside the region");
}

VCLAUSE(containment_and_constants, 60, 2500, 50000, "the region is offset from the origin and anisotropic (widths differ by >= 10), or d >= 3")
{
	Src& s = c.s;
	// budgets over the stated 1e3..1e6: mostly up to 3e4, sometimes the full range (there Vegas stratifies with several points per cell and its
	// strata align with the bins also in three and four dimensions, outside finding K2)
	bool big = s.chance(0.05);
	Call k	 = gen_call(s, false, big ? 1000000 : 30000);
	if(big)
	{
		k.ncalls = (int) std::pow(10.0, s.uniform(4.5, 6.0));
		c.cls("budget_above_3e4");
		if(k.method == 1 && !vegas_strata_misaligned(k.ncalls, k.d) && k.d >= 3)
			c.cls("vegas_aligned_strata_d_ge_3");
	}
	if(s.chance(0.5))
	{
		k.family = 0;
		k.par	 = {s.sign() * std::pow(10.0, s.uniform(-6, 6))};
	}
	double wmin = 1e308, wmax = 0;
	bool offset = false;
	for(int i = 0; i < k.d; i++)
	{
		double w = k.region[(size_t) (k.d + i)] - k.region[(size_t) i];
		wmin	 = std::min(wmin, w);
		wmax	 = std::max(wmax, w);
		if(k.region[(size_t) i] != 0)
			offset = true;
	}
	if((offset && wmax >= 10 * wmin) || k.d >= 3)
		c.nt();
	c.cls(kMC[k.method]);
	c.cls(k.family == 0 ? "constant" : "non_constant");
	VLOG(c, show_call(k));
	Recorded r;
	VMUST_RETURN("Integrate_MC", r = run_call(k));
	VCHECK(r.calls > 0, "integrand never evaluated");
	// the call budget is honoured: plain Monte Carlo and Miser spend it once, Vegas once per iteration (five)
	VCHECK(r.calls >= k.ncalls / 2 && r.calls <= 5L * k.ncalls + 16, kMC[k.method] << " evaluated the integrand " << r.calls << " times for a budget of " << k.ncalls);
	if(k.method != 1)
		c.cls(r.calls == k.ncalls ? "budget_spent_exactly" : "budget_not_spent_exactly");
	VCHECK(r.outside == 0, r.outside << " of " << r.calls << " sample points outside the region, first: " << show(r.first_outside) << " region " << show(k.region, 12));
	if(k.family == 0)
	{
		double cv = k.par[0] * volume(k);
		if(k.method == 1 && vegas_strata_misaligned(k.ncalls, k.d) && finding_open("K2"))
		{
			// known finding K2: Vegas does not integrate constants to rounding when its strata are not aligned with its 50 bins,
			// i.e. for ng = int((ncalls/2+0.25)^(1/d)) < 25 (every d>=3 budget up to 31250, d=2 below 1250 calls): excluded from the
			// exactness clause, counted, only a 1% sanity bound is asserted
			c.known("K2");
			VCLOSE(c, "vegas_constant_misaligned_strata_sanity", r.value, cv, 1e-2 * std::fabs(cv), "Vegas on a constant with misaligned strata (known finding K2: only a 1% sanity bound is asserted)");
		}
		else
		{
			// plain MC and Vegas accumulate N (5N) terms: rounding up to ~N eps; Miser averages recursively
			double rel = k.method == 0 ? 4.0 * k.ncalls * EPS : (k.method == 2 ? 256 * EPS : 1e-11 + 32.0 * k.ncalls * EPS);
			VCLOSE(c, k.method == 0 ? "constant_plain_mc" : (k.method == 2 ? "constant_miser" : "constant_vegas"), r.value, cv, rel * std::fabs(cv), kMC[k.method] << " on the constant " << k.par[0] << " over a region of volume " << volume(k));
		}
	}
}

// ---- unbiasedness: the 6-sigma bound per call (below) leaves room for a bias of several standard errors; a batch of independent calls does not
// The standardised errors of n calls (each divided by the plain Monte Carlo standard error of its budget, an upper bound for the adaptive
// methods) average to zero: sqrt(n) times their mean is within 6 with probability 1-2e-9 for an unbiased estimator, and a bias of half a
// standard error per call shows as 0.5*sqrt(n) = 5.6 ... 7 for n = 128 ... 200.
VCLAUSE(unbiasedness, 9000, 100, 2400, "the batch uses an adaptive method (Vegas or Miser) or more than one dimension")
{
	Src& s	   = c.s;
	int method = (int) s.range(0, 2), n = 200;
	int d	   = (int) s.range(1, 4);
	if(method != 0 || d > 1)
		c.nt();
	c.cls(kMC[method]);
	double zsum = 0, z2 = 0;
	int used = 0;
	// the calls of a batch must be independent whatever the choice sequence looks like (a shrunk or fuzzed sequence repeats its words, and 200
	// identical calls are one call counted 200 times): the seeds are distinct by construction
	uint64_t base = s.below(4294967296ULL);
	for(int i = 0; i < n; i++)
	{
		Call k;
		k.d = d;
		gen_region(s, k.d, k.region);
		k.ncalls = (int) s.range(1000, 4000);
		k.method = method;
		uint64_t z0 = (base + 0x9e3779b97f4a7c15ULL * (uint64_t) (i + 1));
		z0 = (z0 ^ (z0 >> 30)) * 0xbf58476d1ce4e5b9ULL;
		z0 = (z0 ^ (z0 >> 27)) * 0x94d049bb133111ebULL;
		k.seed = (unsigned) ((z0 ^ (z0 >> 31)) & 0xffffffffULL);
		gen_family(s, k, true);
		long double m1, m2;
		moments(k, m1, m2);
		long double var = m2 - m1 * m1;
		if(!(var > 1e-12L * m2))
			continue;	// (numerically) constant integrand: no fluctuation to standardise
		if(method != 0 && k.family == 2)
		{
			bool narrow = false;
			for(int j = 0; j < k.d; j++)
				if(k.par[(size_t) (2 + 2 * j)] < 0.1)
					narrow = true;
			if(narrow)
				continue;	// the plain Monte Carlo standard error is no yardstick for an adaptive method on a peak its allocation can miss (see smooth_accuracy)
		}
		double V = volume(k), se = V * std::sqrt((double) var / k.ncalls);
		Recorded r;
		VMUST_RETURN("Integrate_MC", r = run_call(k));
		double z = (r.value - V * (double) m1) / se;
		if(i < 3)
			VLOG(c, show_call(k) << " -> standardised error " << z);
		zsum += z;
		z2 += z * z;
		used++;
	}
	if(used < 100)
		throw Discard();
	double zagg = zsum / std::sqrt((double) used);
	VLOG(c, kMC[method] << " d=" << d << ": " << used << " calls, sqrt(n)*mean standardised error = " << zagg << ", mean square = " << z2 / used);
	// plain Monte Carlo and Miser (stratified means over points not used for the allocation) are unbiased by construction; Vegas combines
	// its iterations with estimated weights and carries a small finite-budget bias: a quarter of a standard error per call is allowed there
	double zlimit = method == 1 ? 6.0 + 0.25 * std::sqrt((double) used) : 6.0;
	c.ratio(method == 1 ? "aggregated_bias_z_vegas/limit" : "aggregated_bias_z/6", std::fabs(zagg) / zlimit);
	VCHECK(std::fabs(zagg) <= zlimit, kMC[method] << " d=" << d << ": the standardised errors of " << used << " independent calls average to " << zsum / used << " (" << zagg << " standard errors of that mean): the estimator is biased");
	// and they are not wider than the plain Monte Carlo error for the same budget (mean square 1; 1.5 allows 5 sigma of its own fluctuation at n >= 100)
	c.ratio(method == 0 ? "mean_square_standardised_error_plain/1.8" : "mean_square_standardised_error_adaptive/1.8 (recorded only)", z2 / used / 1.8);
	if(method == 0)
		VCHECK(z2 / used <= 1.8, kMC[method] << " d=" << d << ": mean square standardised error " << z2 / used << " over " << used << " calls: errors exceed the plain Monte Carlo standard error of the same budget");
}

VCLAUSE(smooth_accuracy, 60, 1200, 25000, "d >= 2 and the integrand is not constant along any axis")
{
	Src& s = c.s;
	bool big = s.chance(0.05);
	Call k	 = gen_call(s, true, big ? 1000000 : 30000);
	if(big)
	{
		k.ncalls = (int) std::pow(10.0, s.uniform(4.5, 6.0));
		c.cls("budget_above_3e4");
	}
	if(k.d >= 2)
		c.nt();
	c.cls(kMC[k.method]);
	VLOG(c, show_call(k));
	long double m1, m2;
	moments(k, m1, m2);
	long double var = m2 - m1 * m1;
	if(var < 0)
		var = 0;
	double V = volume(k);
	Recorded r;
	VMUST_RETURN("Integrate_MC", r = run_call(k));
	VCHECK(r.outside == 0, "sample points outside the region");
	double se = V * std::sqrt((double) var / k.ncalls);
	// The yardstick for all three methods is the standard error of plain Monte Carlo with the same budget. For the adaptive methods that is
	// an upper bound only while their allocation can see the integrand: a peak a few per cent wide along one axis can be missed by Miser's
	// pre-sampling, and the sub-region holding it then gets the minimal share (observed on the unchanged tree: 9 plain standard errors,
	// d=4, 3e4 calls). For such peaks the adaptive methods are held to a finite estimate within 60 plain standard errors only.
	bool narrow = false;
	if(k.family == 2)
		for(int i = 0; i < k.d; i++)
			if(k.par[(size_t) (2 + 2 * i)] < 0.1)
				narrow = true;
	if(narrow && k.method != 0)
	{
		c.cls("narrow_peak_adaptive_method_sanity_only");
		VCHECK(std::isfinite(r.value), kMC[k.method] << " returned " << r.value << " for " << show_call(k));
		VCLOSE(c, "narrow_peak_sanity_60_standard_errors", r.value, V * (double) m1, 60 * se + 64 * EPS * std::fabs(V * (double) m1), kMC[k.method] << " on a narrow peak: estimate vs exact integral " << V * (double) m1 << " (plain-MC standard error " << se << ")");
		return;
	}
	VCLOSE(c, k.method == 0 ? "six_standard_errors_plain" : (k.method == 1 ? "six_standard_errors_vegas" : "six_standard_errors_miser"), r.value, V * (double) m1, 6 * se + 64 * EPS * std::fabs(V * (double) m1), kMC[k.method] << ": estimate vs exact integral " << V * (double) m1 << " with plain-MC standard error " << se << " for the same budget");
}

VCLAUSE(front_ends, 40, 1500, 30000, "the per-axis limits are pairwise different (a permuted region vector is visible)")
{
	Src& s	   = c.s;
	bool three = s.coin();
	int nd	   = three ? 3 : 2;
	double lo[3], hi[3];
	for(int k = 0; k < nd; k++)
	{
		lo[k] = 10.0 * k + 1 + 3 * s.unit();
		hi[k] = lo[k] + 0.5 + 3 * s.unit();
	}
	bool same = s.chance(0.1);
	if(same)
		for(int k = 1; k < nd; k++)
		{
			lo[k] = lo[0];
			hi[k] = hi[0];
		}
	else
		c.nt();
	int mi		 = (int) s.range(0, 2);
	int ncalls	 = (int) s.range(1000, 8000);
	double cst	 = s.uniform(0.5, 3);
	long calls = 0, bad = 0;
	double badk = 0, badx = 0;
	auto chk = [&](int k, double x) {
		if(!(x >= lo[k] && x <= hi[k]))
		{
			if(!bad)
			{
				badk = k;
				badx = x;
			}
			bad++;
		}
	};
	libphysica::verif::mc_seed_override = true;
	libphysica::verif::mc_seed			= (unsigned) s.below(4294967296ULL);
	VLOG(c, (three ? "Integrate_3D " : "Integrate_2D ") << kMC[mi] << " ncalls=" << ncalls << " x:[" << lo[0] << "," << hi[0] << "] y:[" << lo[1] << "," << hi[1] << "]" << (three ? " z:[" + std::to_string(lo[2]) + "," + std::to_string(hi[2]) + "]" : ""));
	double v = 0, vol = 1;
	for(int k = 0; k < nd; k++)
		vol *= hi[k] - lo[k];
	if(three)
	{
		std::function<double(double, double, double)> f3 = [&](double x, double y, double z) {
			calls++;
			chk(0, x);
			chk(1, y);
			chk(2, z);
			return cst;
		};
		VMUST_RETURN("Integrate_3D (Monte Carlo)", v = libphysica::Integrate_3D(f3, lo[0], hi[0], lo[1], hi[1], lo[2], hi[2], kMC[mi], ncalls));
	}
	else
	{
		std::function<double(double, double)> f2 = [&](double x, double y) {
			calls++;
			chk(0, x);
			chk(1, y);
			return cst;
		};
		VMUST_RETURN("Integrate_2D (Monte Carlo)", v = libphysica::Integrate_2D(f2, lo[0], hi[0], lo[1], hi[1], kMC[mi], ncalls));
	}
	VCHECK(bad == 0, bad << " of " << calls << " evaluations passed an argument outside the limits of its own axis: argument " << (int) badk << " received " << badx);
	// the budget given as method_parameter reaches the integrator (a front end that drops it would use the default of 30000)
	VCHECK(calls >= ncalls / 2 && calls <= 5L * ncalls + 16, kMC[mi] << " front end evaluated the integrand " << calls << " times for a budget of " << ncalls);
	// a constant: exactly cst*volume (Vegas in 3D is the known finding K2, sanity bound only)
	bool k2	   = (mi == 1 && vegas_strata_misaligned(ncalls, nd) && finding_open("K2"));
	double rel = mi == 0 ? 4.0 * ncalls * EPS : (mi == 2 ? 256 * EPS : (k2 ? 1e-2 : 1e-11 + 32.0 * ncalls * EPS));
	if(k2)
		c.known("K2");
	VCLOSE(c, "front_end_constant", v, cst * vol, rel * cst * vol, kMC[mi] << " front end on a constant over the box");
}
