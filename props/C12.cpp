// C12 Gauss-Legendre rules are valid quadrature rules of every order on every interval
#include "../engine/harness.hpp"

#include "libphysica/Integration.hpp"

using namespace vf;
const char* const vf::kPropertyId = "C12";

namespace
{
// reference nodes on [-1,1] by Newton iteration in long double (ascending)
std::vector<long double> ref_nodes(int n)
{
	std::vector<long double> z((size_t) n);
	for(int i = 0; i < (n + 1) / 2; i++)
	{
		long double x = cosl(M_PIl * (i + 0.75L) / (n + 0.5L));
		for(int it = 0; it < 100; it++)
		{
			long double p1 = 1, p2 = 0;
			for(int j = 0; j < n; j++)
			{
				long double p3 = p2;
				p2			   = p1;
				p1			   = ((2 * j + 1) * x * p2 - j * p3) / (j + 1);
			}
			long double pp = n * (x * p1 - p2) / (x * x - 1);
			long double dx = p1 / pp;
			x -= dx;
			if(fabsl(dx) < 1e-19L)
				break;
		}
		z[(size_t) i]		  = -x;
		z[(size_t) (n - 1 - i)] = x;
	}
	return z;
}
void gen_interval(Src& s, double& a, double& b, double& ratio)
{
	switch(s.pick({2, 2, 2, 1, 1}))
	{
		case 0:
			a = -1;
			b = 1;
			break;
		case 4:
		{	// tiny intervals next to the origin (widths far below machine epsilon in absolute terms)
			double hw = std::pow(10.0, s.uniform(-30, -9)), mid = s.coin() ? 0.0 : hw * s.uniform(-3, 3);
			a = mid - hw;
			b = mid + hw;
			break;
		}
		case 1:
		{	// far from the origin: |mid|/half-width up to 1e3, sometimes up to 1e6 (eps*|mid| stays far below the distance of the outermost
			// node from the end of the interval, ~half-width/n^2, for every n generated)
			double hw = std::pow(10.0, s.uniform(-3, 3)), mid = s.sign() * hw * std::pow(10.0, s.chance(0.3) ? s.uniform(3, 6) : s.uniform(0, 3));
			a = mid - hw;
			b = mid + hw;
			break;
		}
		case 2:
		{
			double hw = std::pow(10.0, s.uniform(-8, 8)), mid = hw * s.uniform(-2, 2);
			a = mid - hw;
			b = mid + hw;
			break;
		}
		default:
			a = (double) s.range(-8, 8);
			b = a + (double) s.range(1, 16) * 0.5;
			break;
	}
	ratio = std::fabs(0.5 * (a + b)) / (0.5 * (b - a));
}
}	// namespace

VCLAUSE(rule, 20, 12000, 100000, "n is odd, or n > 64, or the interval is shifted (|mid| >= half width) or reversed")
{
	Src& s = c.s;
	int n;
	switch(s.pick({4, 3, 2, s.size > 100 ? 1.0 : 0.15}))
	{
		case 0: n = (int) s.range(1, 16); break;
		case 1: n = (int) s.range(17, 128); break;
		case 2: n = (int) s.range(129, 512); break;
		default: n = (int) s.range(513, 4000); break;
	}
	double a, b, ratio;
	gen_interval(s, a, b, ratio);
	bool rev = s.coin();
	if(n % 2 == 1 || n > 64 || ratio >= 1 || rev)
		c.nt();
	c.cls(n % 2 ? "odd_n" : "even_n");
	c.cls(n <= 16 ? "n_le_16" : (n <= 128 ? "n_le_128" : (n <= 512 ? "n_le_512" : "n_gt_512")));
	c.cls(rev ? "reversed" : "ordered");
	double A = rev ? b : a, B = rev ? a : b;   // limits as passed
	VLOG(c, "n=" << n << " limits [" << A << "," << B << "] |mid|/hw=" << ratio);
	std::vector<std::vector<double>> rw;
	VMUST_RETURN("Compute_Gauss_Legendre_Roots_and_Weights", rw = libphysica::Compute_Gauss_Legendre_Roots_and_Weights((unsigned) n, A, B));
	VCHECK((int) rw.size() == n, "rule has " << rw.size() << " entries for n=" << n);
	for(auto& r : rw)
		VCHECK(r.size() == 2, "rule entry does not have (node,weight)");
	long double mid = ((long double) a + b) / 2, hw = ((long double) b - a) / 2;
	double dir = rev ? -1.0 : 1.0;
	std::vector<long double> zr = ref_nodes(n);
	long double wsum = 0;
	// accuracy of a node in the mapped variable: Newton to 1e-14 plus rounding of mid -/+ hw*z
	double node_tol = 64 * EPS * (1 + ratio);
	for(int i = 0; i < n; i++)
	{
		double x = rw[(size_t) i][0], w = rw[(size_t) i][1];
		VCHECK(std::isfinite(x) && std::isfinite(w), "non-finite node/weight at " << i);
		VCHECK(x > a && x < b, "node " << i << " = " << x << " not strictly inside (" << a << "," << b << ")");
		if(i > 0)
			VCHECK(dir * (x - rw[(size_t) i - 1][0]) > 0, "nodes not strictly monotone in the orientation of the interval at " << i << ": " << rw[(size_t) i - 1][0] << " then " << x);
		VCHECK(dir * w > 0, "weight " << i << " = " << w << " has the wrong sign for limits [" << A << "," << B << "]");
		// symmetry: node i and n-1-i mirror about the midpoint, weights equal
		double xm = rw[(size_t) (n - 1 - i)][0], wm = rw[(size_t) (n - 1 - i)][1];
		// symmetric to the accuracy the nodes and weights themselves have (a rule whose roots are all found independently is as good);
		// exact mirror images - what the present construction gives - are counted
		VCLOSE(c, "node_symmetry", (double) (((long double) x - mid) / hw), (double) (-((long double) xm - mid) / hw), node_tol, "nodes " << i << " and " << n - 1 - i << " not symmetric about the midpoint");
		VCLOSE(c, "weight_symmetry", w, wm, 1024 * EPS * std::fabs(B - A) / n + 64 * EPS * std::fabs(w), "weights " << i << " and " << n - 1 - i << " differ");
		if(w == wm)
			c.cls("weights_mirror_exactly");
		// independent reference
		long double t = ((long double) x - mid) / hw;
		int ri		  = rev ? n - 1 - i : i;
		VCLOSE(c, "node_vs_reference", (double) t, (double) zr[(size_t) ri], node_tol, "node " << i << " (mapped to [-1,1]) vs long double Newton reference");
		// (tolerance: the Newton iteration stops at steps of 1e-14 and d(log w)/dz ~ n^2 at the outermost nodes, so single weights of large rules
		// are off by up to ~70 eps |b-a| (measured at n=1079); the bound is half of what the sum of all weights is allowed)
		// every weight against w_i = 2 / ((1-z_i^2) P_n'(z_i)^2) at the reference node (a compensating pair of wrong weights leaves the sum alone)
		{
			long double z = zr[(size_t) ri], p1 = 1, p2 = 0;
			for(int j = 0; j < n; j++)
			{
				long double p3 = p2;
				p2			   = p1;
				p1			   = ((2 * j + 1) * z * p2 - j * p3) / (j + 1);
			}
			long double pp = n * (z * p1 - p2) / (z * z - 1), wref = 2 / ((1 - z * z) * pp * pp) * hw * (rev ? -1 : 1);
			VCLOSE(c, "weight_vs_reference", w, (double) wref, 512 * EPS * std::fabs(B - A) + 256 * EPS * std::fabs((double) wref), "weight " << i << " vs 2/((1-z^2) P_n'(z)^2) in long double");
		}
		wsum += w;
	}
	// the weights carry the error of the last Newton step (stopping threshold 1e-14 ~ 45 eps): measured 10..105 eps*|b-a| for n=2..4000,
	// nearly independent of n; K=1024 is 8x the worst observed value
	VCLOSE(c, "weight_sum", (double) wsum, B - A, 1024 * EPS * std::fabs(B - A), "sum of the weights vs b-a");
	// exactness: Legendre basis of the mapped variable up to degree 2n-1 (all for n<=40, a spread above), monomials up to min(2n-1,60)
	int kmax = 2 * n - 1;
	std::vector<int> ks;
	if(kmax <= 80)
		for(int k = 1; k <= kmax; k++)
			ks.push_back(k);
	else
	{
		for(int k = 1; k <= 12; k++)
			ks.push_back(k);
		for(int q = 0; q < 10; q++)
			ks.push_back((int) s.range(13, kmax));
		ks.push_back(kmax);
		ks.push_back(kmax - 1);
	}
	// Legendre sums: sum_i w_i P_k(t_i) = 0
	std::vector<long double> ts((size_t) n);
	for(int i = 0; i < n; i++)
		ts[(size_t) i] = ((long double) rw[(size_t) i][0] - mid) / hw;
	int kbig = 0;
	for(int k : ks)
		kbig = std::max(kbig, k);
	std::vector<long double> acc((size_t) kbig + 1, 0.0L);
	for(int i = 0; i < n; i++)
	{
		long double p0 = 1, p1 = ts[(size_t) i], w = rw[(size_t) i][1];
		acc[0] += w;
		if(kbig >= 1)
			acc[1] += w * p1;
		for(int k = 2; k <= kbig; k++)
		{
			long double p2 = ((2 * k - 1) * ts[(size_t) i] * p1 - (k - 1) * p0) / k;
			p0			   = p1;
			p1			   = p2;
			acc[(size_t) k] += w * p2;
		}
	}
	for(int k : ks)
		VCLOSE(c, "legendre_exactness", (double) acc[(size_t) k], 0.0, EPS * std::fabs(B - A) * (1024 + 8 * (1 + k) * ratio), "integral of the Legendre polynomial P_" << k << " (degree <= 2n-1 = " << kmax << ") must vanish");
	int mmax = std::min(kmax, 60);
	for(int k = 0; k <= mmax; k += (mmax > 24 ? 3 : 1))
	{
		long double sum = 0;
		for(int i = 0; i < n; i++)
			sum += (long double) rw[(size_t) i][1] * powl(ts[(size_t) i], k);
		long double exact = (k % 2) ? 0.0L : 2.0L / (k + 1) * hw * (rev ? -1 : 1);
		VCLOSE(c, "monomial_exactness", (double) sum, (double) exact, EPS * std::fabs(B - A) * (1024 + 8 * (1 + k) * ratio), "integral of t^" << k << " in the mapped variable");
	}
}

// every order n = 1..512 in one case ("exhaustive" in the quantifier): on [-1,1] and on one generated interval the rule is strictly
// increasing, strictly inside, mirror-symmetric, positive, sums to b-a and integrates t^2 and t^(2n-2) / P_(2n-1)
VCLAUSE(order_sweep, 8, 8, 32, "every case sweeps all orders 1..512 on two intervals")
{
	Src& s = c.s;
	c.nt();
	double a, b, ratio;
	gen_interval(s, a, b, ratio);
	bool rev = s.coin();
	VLOG(c, "sweep n=1..512 on [-1,1] and on [" << (rev ? b : a) << "," << (rev ? a : b) << "]");
	for(int pass = 0; pass < 2; pass++)
	{
		double lo = pass == 0 ? -1.0 : a, hi = pass == 0 ? 1.0 : b, rt = pass == 0 ? 0.0 : ratio;
		bool rv = pass == 1 && rev;
		long double mid = ((long double) lo + hi) / 2, hw = ((long double) hi - lo) / 2;
		for(int n = 1; n <= 512; n++)
		{
			std::vector<std::vector<double>> rw;
			VMUST_RETURN("Compute_Gauss_Legendre_Roots_and_Weights", rw = libphysica::Compute_Gauss_Legendre_Roots_and_Weights((unsigned) n, rv ? hi : lo, rv ? lo : hi));
			VCHECK((int) rw.size() == n, "n=" << n << ": rule has " << rw.size() << " entries");
			long double wsum = 0, m2 = 0, top = 0;
			double dir = rv ? -1.0 : 1.0;
			for(int i = 0; i < n; i++)
			{
				double x = rw[(size_t) i][0], w = rw[(size_t) i][1];
				VCHECK(std::isfinite(x) && std::isfinite(w) && x > lo && x < hi && dir * w > 0, "n=" << n << ": node " << i << " = " << x << " weight " << w << " on (" << lo << "," << hi << ")");
				if(i > 0)
					VCHECK(dir * (x - rw[(size_t) i - 1][0]) > 0, "n=" << n << ": nodes " << i - 1 << "," << i << " out of order");
				long double t = ((long double) x - mid) / hw, tm = ((long double) rw[(size_t) (n - 1 - i)][0] - mid) / hw;
				VCLOSE(c, "sweep_node_symmetry", (double) t, (double) -tm, 64 * EPS * (1 + rt), "n=" << n << ": nodes " << i << " and " << n - 1 - i);
				wsum += w;
				m2 += (long double) w * t * t;
				// top degree 2n-1 through the Legendre polynomial P_(2n-1)(t), which must integrate to zero
				long double p0 = 1, p1 = t;
				for(int k = 2; k <= 2 * n - 1 && n <= 40; k++)
				{
					long double p2 = ((2 * k - 1) * t * p1 - (k - 1) * p0) / k;
					p0 = p1;
					p1 = p2;
				}
				if(n <= 40)
					top += (long double) w * (n == 1 ? t : p1);
			}
			double W = (double) fabsl(2 * hw);
			VCLOSE(c, "sweep_weight_sum", (double) wsum, dir * W, 1024 * EPS * W, "n=" << n << ": sum of the weights");
			if(n >= 2)
				VCLOSE(c, "sweep_second_moment", (double) m2, (double) (dir * 2.0L / 3 * hw), EPS * W * (1024 + 24 * rt), "n=" << n << ": integral of t^2");
			if(n <= 40)
				VCLOSE(c, "sweep_top_degree", (double) top, 0.0, EPS * W * (1024 + 16 * n * rt), "n=" << n << ": integral of P_(2n-1)");
		}
	}
}

VCLAUSE(overloads, 30, 8000, 160000, "limits reversed or value list supplied separately")
{
	Src& s = c.s;
	int n  = s.chance(0.15) ? (int) s.range(65, 400) : (int) s.range(1, 64);
	double a, b, ratio;
	gen_interval(s, a, b, ratio);
	bool rev = s.coin();
	double A = rev ? b : a, B = rev ? a : b;
	if(rev)
		c.nt();
	if(s.chance(0.25))
	{
		// a smooth non-polynomial integrand: the three overloads evaluate the same rule on it (no exactness claim, the sum over the rule is the oracle)
		double w = s.uniform(0.1, 3), ph = s.uniform(0, 6);
		double mid0 = 0.5 * (a + b), hw0 = 0.5 * (b - a);
		auto g = [=](double x) { double t = (x - mid0) / hw0; return std::exp(0.5 * t) * std::cos(w * t + ph) + 2.0; };
		std::vector<std::vector<double>> rule;
		std::vector<double> gv;
		double j1 = 0, j2 = 0, j3 = 0;
		c.cls("non_polynomial_integrand");
		VMUST_RETURN("Gauss-Legendre overloads (smooth integrand)", rule = libphysica::Compute_Gauss_Legendre_Roots_and_Weights((unsigned) n, A, B); for(auto& r : rule) gv.push_back(g(r[0])); j1 = libphysica::Integrate_Gauss_Legendre(g, A, B, (unsigned) n);
					 j2 = libphysica::Integrate_Gauss_Legendre(g, rule); j3 = libphysica::Integrate_Gauss_Legendre(gv, rule));
		long double sum = 0, mag2 = 0;
		for(size_t i = 0; i < rule.size(); i++)
		{
			sum += (long double) rule[i][1] * gv[i];
			mag2 += fabsl((long double) rule[i][1] * gv[i]);
		}
		double tl = 4 * EPS * (double) mag2 * std::sqrt((double) n + 4);
		VCLOSE(c, "overload_values_is_weighted_sum", j3, (double) sum, tl, "Integrate_Gauss_Legendre(values,rule) vs the sum of weight*value in long double");
		VCLOSE(c, "overloads_agree_smooth", j2, j3, tl, "Integrate_Gauss_Legendre(func,rule) vs (values,rule)");
		VCLOSE(c, "overloads_agree_smooth", j1, j3, tl, "Integrate_Gauss_Legendre(func,a,b,n) vs (values,rule)");
		// larger length mismatches in either direction
		std::vector<double> wrong = gv;
		int dl = (int) s.range(1, 5);
		if(s.coin() || (int) wrong.size() <= dl)
			wrong.insert(wrong.end(), (size_t) dl, 1.0);
		else
			wrong.resize(wrong.size() - (size_t) dl);
		VMUST_EXIT("Integrate_Gauss_Legendre with " << wrong.size() << " values for a rule of " << rule.size(), double v = libphysica::Integrate_Gauss_Legendre(wrong, rule); (void) v);
		return;
	}
	// a polynomial of degree <= 2n-1 in the mapped variable (exact for the rule), plus a smooth non-polynomial term
	int deg = (int) s.range(0, std::min(2 * n - 1, 9));
	std::vector<double> cf((size_t) deg + 1);
	for(auto& v : cf)
		v = s.small_int(5);
	double mid = 0.5 * (a + b), hw = 0.5 * (b - a);
	auto f = [=](double x) {
		double t = (x - mid) / hw, v = 0;
		for(int k = deg; k >= 0; k--)
			v = v * t + cf[(size_t) k];
		return v;
	};
	VLOG(c, "n=" << n << " limits [" << A << "," << B << "] polynomial degree " << deg << " coefficients " << show(cf));
	std::vector<std::vector<double>> rw;
	double i1 = 0, i2 = 0, i3 = 0, i4 = 0;
	std::vector<double> vals;
	VMUST_RETURN("Gauss-Legendre overloads", rw = libphysica::Compute_Gauss_Legendre_Roots_and_Weights((unsigned) n, A, B); for(auto& r : rw) vals.push_back(f(r[0])); i1 = libphysica::Integrate_Gauss_Legendre(f, A, B, (unsigned) n);
				 i2 = libphysica::Integrate_Gauss_Legendre(f, rw); i3 = libphysica::Integrate_Gauss_Legendre(vals, rw); i4 = libphysica::Integrate_Gauss_Legendre(f, B, A, (unsigned) n));
	long double exact = 0, mag = 0;
	for(int k = 0; k <= deg; k++)
	{
		if(k % 2 == 0)
			exact += (long double) cf[(size_t) k] * 2 / (k + 1);
		mag += fabsl((long double) cf[(size_t) k]);
	}
	exact *= (long double) hw * (rev ? -1 : 1);
	double tol = EPS * (double) mag * std::fabs(B - A) * (1024 + 64 * (1 + ratio));
	VCLOSE(c, "overload_func_limits", i1, (double) exact, tol, "Integrate_Gauss_Legendre(func,a,b,n) vs the exact integral of a polynomial of degree " << deg << " <= 2n-1");
	VCLOSE(c, "overloads_agree", i2, i1, 4 * EPS * (double) mag * std::fabs(B - A), "Integrate_Gauss_Legendre(func,rule) vs (func,a,b,n)");
	// "the same value for the same rule": to rounding (bit-identical results are counted)
	VCLOSE(c, "overloads_agree", i3, i2, 4 * EPS * (double) mag * std::fabs(B - A), "Integrate_Gauss_Legendre(values,rule) vs (func,rule)");
	if(same_bits(i3, i2))
		c.cls("overloads_bit_identical");
	VCLOSE(c, "orientation", i4, -i1, tol, "exchanging the limits must negate the result");
	if(s.chance(0.2))
	{
		std::vector<double> wrong = vals;
		if(s.coin() || wrong.empty())
			wrong.push_back(1.0);
		else
			wrong.pop_back();
		c.cls("length_mismatch");
		VMUST_EXIT("Integrate_Gauss_Legendre with " << wrong.size() << " values for a rule of " << rw.size(), double v = libphysica::Integrate_Gauss_Legendre(wrong, rw); (void) v);
	}
}
