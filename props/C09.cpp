// C09 Interpolation results do not depend on the history of earlier calls (stateful, model-based)
// Model: a *fresh* object (same table, same accumulated prefactor) asked the single query.
#include "../engine/harness.hpp"
#include "../engine/interp_common.hpp"

#include "libphysica/Numerics.hpp"

using namespace vf;
using libphysica::Interpolation;
using libphysica::Interpolation_2D;
const char* const vf::kPropertyId = "C09";

namespace
{
struct Tab
{
	std::vector<double> x, y;
	Interpolation pristine;	  // constructed once, never queried; a copy of it is a fresh object
};
struct Slot
{
	Interpolation obj;
	int tab	 = 0;
	double P = 1.0;
	int pos	 = 0;	// index of the interval of the last query (for correlated steps)
	int dir	 = 1;	// current sweep direction of the correlated steps
	int up_run = 0, down_run = 0;
};
int seg_of(const std::vector<double>& X, double x)
{
	int N = (int) X.size();
	if(x <= X[0])
		return 0;
	if(x >= X[N - 1])
		return N - 2;
	int j = (int) (std::upper_bound(X.begin(), X.end(), x) - X.begin()) - 1;
	return std::min(std::max(j, 0), N - 2);
}
bool is_knot(const std::vector<double>& X, double x) { return std::binary_search(X.begin(), X.end(), x); }

// next query abscissa: far jump / short correlated step / knot / neighbour of a knot / domain end / extrapolation zone / same again
double next_x(Src& s, const std::vector<double>& X, Slot& sl, double last_x, std::string& mode)
{
	int N = (int) X.size();
	int m = s.pick({1.5, 9, 2, 1, 0.5, 0.5, 1});
	int j = sl.pos;
	double x;
	switch(m)
	{
		case 0:
			mode = "far_jump";
			j	 = (int) s.range(0, N - 2);
			x	 = X[j] + (X[j + 1] - X[j]) * s.unit();
			break;
		case 1:
		{
			if(s.chance(0.12) || (sl.dir > 0 && j >= N - 2) || (sl.dir < 0 && j <= 0))
				sl.dir = -sl.dir;	// sweeps: several steps in one direction, then turn around
			int step = (int) s.range(0, 3) * sl.dir;
			if(s.chance(0.2))
				step = (int) s.range(4, 12) * sl.dir;
			mode = step > 0 ? "step_up" : (step < 0 ? "step_down" : "same_interval");
			j	 = std::min(std::max(j + step, 0), N - 2);
			x	 = X[j] + (X[j + 1] - X[j]) * s.unit();
			break;
		}
		case 2:
		{
			int k = s.coin() ? (int) s.range(0, N - 1) : std::min(std::max(j + (int) s.range(-2, 3), 0), N - 1);
			mode  = "knot";
			x	  = X[k];
			break;
		}
		case 3:
		{
			int k = std::min(std::max(j + (int) s.range(-2, 3), 0), N - 1);
			mode  = "knot_neighbour";
			x	  = std::nextafter(X[k], s.coin() ? INFINITY : -INFINITY);
			x	  = std::min(std::max(x, X[0]), X[N - 1]);
			break;
		}
		case 4:
			mode = "domain_end";
			x	 = s.coin() ? X[0] : X[N - 1];
			break;
		case 5:
			mode = "extrapolation_zone";
			x	 = s.coin() ? X[0] - 0.0099 * (X[1] - X[0]) * s.unit() : X[N - 1] + 0.0099 * (X[N - 1] - X[N - 2]) * s.unit();
			break;
		default:
			mode = "same_x";
			x	 = last_x;
			if(!(x >= X[0] && x <= X[N - 1]))
				x = X[j];
			break;
	}
	if(x > X[N - 1] && mode != "extrapolation_zone")
		x = X[N - 1];
	if(x < X[0] && mode != "extrapolation_zone")
		x = X[0];
	sl.pos = seg_of(X, x);
	return x;
}
double scale_near(const std::vector<double>& X, const std::vector<double>& Y, double x)
{
	int j = seg_of(X, x), N = (int) X.size();
	double sc = 0;
	for(int k = std::max(j - 1, 0); k <= std::min(j + 2, N - 1); k++)
		sc = std::max(sc, std::fabs(Y[k]));
	return sc;
}
}	// namespace

VCLAUSE(history_1d, 60000, 6000, 60000, "the sequence contains runs of >= 3 correlated steps in each direction, a far jump after such a run, a knot query reached by hunting, and a copy")
{
	Src& s = c.s;
	int sz = s.size;
	int nmax = sz <= 100 ? 3 + 3 * sz : 303 + 17 * (sz - 100);
	int opsmax = sz <= 100 ? 4 + 4 * sz : 404 + 46 * (sz - 100);
	Tab T[2];
	for(int k = 0; k < 2; k++)
	{
		int N	= (int) s.range(3, k == 0 ? nmax : std::min(nmax, 40));
		T[k].x	= gen_abscissae(s, N, 6.0);
		T[k].y	= gen_ordinates(s, N);
		// built with or without unit factors, from lists or from the two-column table: whatever the construction, the object is the interpolant
		// of the scaled table (T[k].x, T[k].y hold the scaled values from here on) and "freshly constructed" means the same for all of them
		std::vector<double> rx = T[k].x, ry = T[k].y;
		double xd = -1, fd = -1;
		int ck = s.pick({5, 2, 2, 1});
		if(ck == 1 || ck == 3)
			xd = s.coin() ? std::ldexp(1.0, (int) s.range(-20, 20)) : std::pow(10.0, s.uniform(-6, 6));
		if(ck == 2 || ck == 3)
			fd = s.coin() ? std::ldexp(1.0, (int) s.range(-20, 20)) : std::pow(10.0, s.uniform(-6, 6));
		bool mono = true;
		for(int i = 0; i < N; i++)
		{
			if(xd > 0)
				T[k].x[(size_t) i] = rx[(size_t) i] * xd;
			if(fd > 0)
				T[k].y[(size_t) i] = ry[(size_t) i] * fd;
			if(i > 0 && !(T[k].x[(size_t) i] > T[k].x[(size_t) i - 1]))
				mono = false;
		}
		if(!mono)
		{
			T[k].x = rx;
			xd	   = -1;
		}
		if(xd > 0 || fd > 0)
			c.cls("constructed_with_unit_factors");
		if(s.coin())
			VMUST_RETURN("Interpolation constructor", T[k].pristine = Interpolation(rx, ry, xd, fd));
		else
		{
			std::vector<std::vector<double>> tab;
			for(int i = 0; i < N; i++)
				tab.push_back({rx[(size_t) i], ry[(size_t) i]});
			c.cls("constructed_from_table");
			VMUST_RETURN("Interpolation table constructor", T[k].pristine = Interpolation(tab, xd, fd));
		}
		VLOG(c, "table " << k << ": N=" << N << " x=" << show(T[k].x, 8) << " y=" << show(T[k].y, 8));
	}
	std::vector<Slot> slots(3);
	for(int k = 0; k < 3; k++)
	{
		slots[k].tab = k == 2 ? 1 : 0;
		// slot 0 is truly freshly constructed, the others are copies of the never-used object
		if(k == 0)
			VMUST_RETURN("Interpolation constructor", slots[k].obj = T[0].pristine);
		else
			slots[k].obj = T[slots[k].tab].pristine;
	}
	int nops = (int) s.range(1, opsmax);
	bool had_up = false, had_down = false, jump_after_run = false, knot_by_hunt = false, had_copy = false;
	double last_x = T[0].x[0];
	for(int op = 0; op < nops; op++)
	{
		int si	  = s.pick({8, 1, 1});
		Slot& sl  = slots[si];
		Tab& tb	  = T[sl.tab];
		const std::vector<double>&X = tb.x, &Y = tb.y;
		int N	  = (int) X.size();
		int kind  = s.pick({10, 3, 2, 2, 2, 1, 1, 1.5, 1.5});
		// the model: a fresh object with the same accumulated prefactor
		auto fresh = [&]() {
			Interpolation g = (op % 7 == 3) ? Interpolation(X, Y) : tb.pristine;
			if(sl.P != 1.0 || op % 2)
				g.Set_Prefactor(sl.P);
			return g;
		};
		if(kind <= 5)
		{
			std::string mode;
			int before	= sl.pos;
			double x	= next_x(s, X, sl, last_x, mode);
			last_x		= x;
			int dstep	= sl.pos - before;
			if(mode == "step_up" || mode == "step_down" || mode == "same_interval")
			{
				if(dstep > 0)
				{
					sl.up_run++;
					sl.down_run = 0;
				}
				else if(dstep < 0)
				{
					sl.down_run++;
					sl.up_run = 0;
				}
				if(sl.up_run >= 3)
					had_up = true;
				if(sl.down_run >= 3)
					had_down = true;
			}
			else
			{
				if(mode == "far_jump" && (sl.up_run >= 3 || sl.down_run >= 3))
					jump_after_run = true;
				if(mode == "knot" && (sl.up_run >= 1 || sl.down_run >= 1))
					knot_by_hunt = true;
				sl.up_run = sl.down_run = 0;
			}
			bool knot = is_knot(X, x);
			double sc = scale_near(X, Y, x) * std::fabs(sl.P);
			c.cls(mode.c_str());
			Interpolation g = fresh();
			if(kind == 0 || kind == 1)
			{
				bool paren = s.coin();
				double v = 0, r = 0;
				VMUST_RETURN("Interpolate", v = paren ? sl.obj(x) : sl.obj.Interpolate(x); r = g.Interpolate(x));
				VLOG(c, "op " << op << " slot " << si << " Interpolate(" << x << ") [" << mode << "] = " << v);
				if(!knot)
				{
					Interpolation unit = tb.pristine;
					double u = 0;
					VMUST_RETURN("Interpolate (unscaled model)", u = unit.Interpolate(x));
					VCLOSE(c, "value_scales_with_prefactor", v, sl.P * u, 4 * EPS * std::fabs(sl.P * u), "op " << op << ": Interpolate(" << x << ") with accumulated prefactor " << sl.P << " vs prefactor times the unscaled value");
				}
				if(!knot)
					VCHECK(same_bits(v, r), "op " << op << ": Interpolate(" << x << ") on the used object = " << v << ", fresh object = " << r << " (" << mode << ", not a knot)");
				else
					VCLOSE(c, "knot_value", v, r, 128 * EPS * sc, "op " << op << ": Interpolate at knot " << x << " used vs fresh");
			}
			else if(kind == 2)
			{
				unsigned d = (unsigned) s.range(0, 4);
				double v = 0, r = 0;
				VMUST_RETURN("Derivative", v = sl.obj.Derivative(x, d); r = g.Derivative(x, d));
				VLOG(c, "op " << op << " slot " << si << " Derivative(" << x << "," << d << ") [" << mode << "] = " << v);
				// every output changes by exactly the accumulated factor: compare with P times the answer of an unscaled fresh object
				if(!knot)
				{
					Interpolation unit = tb.pristine;
					double u = 0;
					VMUST_RETURN("Derivative (unscaled model)", u = unit.Derivative(x, d));
					VCLOSE(c, "derivative_scales_with_prefactor", v, sl.P * u, 4 * EPS * std::fabs(sl.P * u), "op " << op << ": Derivative(" << x << "," << d << ") with accumulated prefactor " << sl.P << " vs prefactor times the unscaled derivative");
				}
				if(!knot)
					VCHECK(same_bits(v, r), "op " << op << ": Derivative(" << x << "," << d << ") used = " << v << ", fresh = " << r << " (" << mode << ")");
				else if(d <= 1)
				{
					int j	  = seg_of(X, x);
					double sm = 0;
					for(int k = std::max(j - 1, 0); k <= std::min(j + 1, N - 2); k++)
						sm = std::max(sm, std::fabs((Y[k + 1] - Y[k]) / (X[k + 1] - X[k])));
					VCLOSE(c, "knot_derivative", v, r, d == 0 ? 128 * EPS * sc : 512 * EPS * sm * std::fabs(sl.P), "op " << op << ": Derivative order " << d << " at knot " << x);
				}
				else if(d <= 3)
				{
					// two-valued at a knot: must equal one of the one-sided values (taken next to the knot from a fresh object)
					double xl = std::nextafter(x, -INFINITY), xr = std::nextafter(x, INFINITY);
					Interpolation g2 = fresh(), g3 = fresh();
					double l = (xl >= X[0]) ? g2.Derivative(xl, d) : r, rr = (xr <= X[N - 1]) ? g3.Derivative(xr, d) : r;
					double t1 = 1e-6 * std::max(std::fabs(l), std::fabs(rr)) + 1e-300;
					VCHECK(std::fabs(v - l) <= t1 || std::fabs(v - rr) <= t1 || same_bits(v, r), "op " << op << ": Derivative order " << d << " at knot " << x << " = " << v << " equals neither one-sided value (" << l << ", " << rr << ")");
				}
				else
					VCHECK(v == 0.0, "derivative of order 4");
			}
			else if(kind == 3)
			{
				std::string m2;
				Slot tmp = sl;
				double x2 = next_x(s, X, tmp, x, m2);
				double v = 0, r = 0;
				VMUST_RETURN("Integrate", v = sl.obj.Integrate(x, x2); r = g.Integrate(x, x2));
				sl.pos = seg_of(X, std::max(x, x2));
				last_x = x2;
				VLOG(c, "op " << op << " slot " << si << " Integrate(" << x << "," << x2 << ") = " << v);
				double scI = 0;
				{
					int j1 = seg_of(X, std::min(x, x2)), j2 = seg_of(X, std::max(x, x2));
					for(int k = std::max(j1 - 1, 0); k <= std::min(j2 + 1, N - 2); k++)
						scI += std::max(std::fabs(Y[k]), std::fabs(Y[k + 1])) * (std::max(std::fabs(X[k]), std::fabs(X[k + 1])) + (X[k + 1] - X[k]));
				}
				if(!knot && !is_knot(X, x2))
					VCHECK(same_bits(v, r), "op " << op << ": Integrate(" << x << "," << x2 << ") used = " << v << ", fresh = " << r);
				else
					VCLOSE(c, "knot_integral", v, r, 64 * EPS * scI * std::fabs(sl.P), "op " << op << ": Integrate with a limit at a knot, used vs fresh");
				// independent of Set_Prefactor: P times the integral of the never-scaled object
				if(op % 3 == 0)
				{
					Interpolation unit = tb.pristine;
					double u = 0;
					VMUST_RETURN("Integrate (unscaled model)", u = unit.Integrate(x, x2));
					VCLOSE(c, "integral_scales_with_prefactor", v, sl.P * u, 64 * EPS * scI * std::fabs(sl.P), "op " << op << ": Integrate(" << x << "," << x2 << ") must be P=" << sl.P << " times the integral of the unscaled object");
				}
			}
			else if(kind == 4)
			{
				std::string m2;
				Slot tmp = sl;
				double x2 = next_x(s, X, tmp, x, m2);
				double a = std::min(x, x2), b = std::max(x, x2);
				bool mx = s.coin();
				double v = 0, r = 0;
				VMUST_RETURN("Local extremum", v = mx ? sl.obj.Local_Maximum(a, b) : sl.obj.Local_Minimum(a, b); r = mx ? g.Local_Maximum(a, b) : g.Local_Minimum(a, b));
				sl.pos = seg_of(X, b);
				last_x = b;
				VLOG(c, "op " << op << " slot " << si << (mx ? " Local_Maximum(" : " Local_Minimum(") << a << "," << b << ") = " << v);
				if(!is_knot(X, a) && !is_knot(X, b))
					VCHECK(same_bits(v, r), "op " << op << ": Local extremum on [" << a << "," << b << "] used = " << v << ", fresh = " << r);
				else
					VCLOSE(c, "knot_extremum", v, r, 128 * EPS * std::max(scale_near(X, Y, a), scale_near(X, Y, b)) * std::fabs(sl.P), "op " << op << ": local extremum with a limit at a knot");
				if(op % 3 == 0)
				{
					// P times the extremum of the never-scaled object (a negative prefactor exchanges minimum and maximum)
					Interpolation unit = tb.pristine;
					bool umx = (sl.P < 0) ? !mx : mx;
					double u = 0, ymag = 0;
					VMUST_RETURN("Local extremum (unscaled model)", u = umx ? unit.Local_Maximum(a, b) : unit.Local_Minimum(a, b));
					for(int k = std::max(seg_of(X, a) - 1, 0); k <= std::min(seg_of(X, b) + 2, N - 1); k++)
						ymag = std::max(ymag, std::fabs(Y[k]));
					VCLOSE(c, "local_extremum_scales_with_prefactor", v, sl.P * u, 128 * EPS * ymag * std::fabs(sl.P), "op " << op << ": local extremum on [" << a << "," << b << "] must be P=" << sl.P << " times the " << (umx ? "maximum" : "minimum") << " of the unscaled object");
				}
			}
			else
			{
				unsigned v = 0, r = 0;
				VMUST_RETURN("Locate", v = sl.obj.Locate(x); r = g.Locate(x));
				VLOG(c, "op " << op << " slot " << si << " Locate(" << x << ") [" << mode << "] = " << v);
				int j = seg_of(X, x);
				if(!knot)
					VCHECK(v == r && (int) v == j, "op " << op << ": Locate(" << x << ") used = " << v << ", fresh = " << r << ", definition " << j << " (" << mode << ")");
				else
				{
					int k = (int) (std::lower_bound(X.begin(), X.end(), x) - X.begin());
					VCHECK(((int) v == k || (int) v == k - 1) && (int) v >= 0 && (int) v <= N - 2, "op " << op << ": Locate at knot " << k << " returned " << v);
				}
			}
		}
		else if(kind == 6)
		{
			double v = 0, w = 0, r = 0, q = 0;
			Interpolation g = fresh();
			VMUST_RETURN("Global extrema", v = sl.obj.Global_Minimum(); w = sl.obj.Global_Maximum(); r = g.Global_Minimum(); q = g.Global_Maximum());
			VCHECK(same_bits(v, r) && same_bits(w, q), "op " << op << ": global extrema used (" << v << "," << w << ") fresh (" << r << "," << q << ")");
			{
				Interpolation unit = tb.pristine;
				double um = 0, uM = 0;
				VMUST_RETURN("Global extrema (unscaled model)", um = unit.Global_Minimum(); uM = unit.Global_Maximum());
				double em = sl.P >= 0 ? sl.P * um : sl.P * uM, eM = sl.P >= 0 ? sl.P * uM : sl.P * um;
				VCLOSE(c, "global_extrema_scale_with_prefactor", v, em, 4 * EPS * std::fabs(em), "op " << op << ": Global_Minimum with P=" << sl.P);
				VCLOSE(c, "global_extrema_scale_with_prefactor", w, eM, 4 * EPS * std::fabs(eM), "op " << op << ": Global_Maximum with P=" << sl.P);
			}
		}
		else if(kind == 7)
		{
			double fac = s.pick({1, 1, 1}) == 0 ? s.sign() * std::ldexp(1.0, (int) s.range(-8, 8)) : s.sign() * std::pow(10.0, s.uniform(-4, 4));
			if(s.chance(0.04))
			{
				fac = 0.0;	 // every output vanishes until the prefactor is set again
				c.cls("prefactor_zero");
			}
			// outputs change by exactly the stated factor: compare a probe evaluation before and after
			double xp = X[sl.pos] + 0.37 * (X[sl.pos + 1] - X[sl.pos]);
			Interpolation before = sl.obj;
			bool set = s.coin();
			if(set)
			{
				sl.obj.Set_Prefactor(fac);
				sl.P = fac;
			}
			else
			{
				if(std::fabs(sl.P * fac) > 1e40 || std::fabs(sl.P * fac) < 1e-40)
					fac = fac > 0 ? 1 : -1;
				sl.obj.Multiply(fac);
				sl.P *= fac;
			}
			VLOG(c, "op " << op << " slot " << si << (set ? " Set_Prefactor(" : " Multiply(") << fac << ") -> P=" << sl.P);
			Interpolation unit = tb.pristine;
			double a = 0, u = 0, d1 = 0, u1 = 0;
			VMUST_RETURN("probe after prefactor change", a = sl.obj.Interpolate(xp); u = unit.Interpolate(xp); d1 = sl.obj.Derivative(xp, 1); u1 = unit.Derivative(xp, 1));
			VCLOSE(c, "prefactor_exact", a, sl.P * u, 4 * EPS * std::fabs(sl.P * u), "op " << op << ": after the prefactor change Interpolate(" << xp << ") must be P times the unscaled value, P=" << sl.P);
			VCLOSE(c, "prefactor_exact_derivative", d1, sl.P * u1, 4 * EPS * std::fabs(sl.P * u1), "op " << op << ": Derivative must scale with P=" << sl.P);
			c.cls(set ? "set_prefactor" : "multiply");
		}
		else
		{
			// copies and assignments at arbitrary points of the sequence
			int sj = (int) s.range(0, 2);
			if(sj == si)
				sj = (si + 1) % 3;
			if(s.coin())
			{
				Interpolation cp(sl.obj);	// copy-construct, continue on the copy in the other slot
				slots[sj].obj = cp;
			}
			else
				slots[sj].obj = sl.obj;	  // assign from a used object
			slots[sj].tab = sl.tab;
			slots[sj].P	  = sl.P;
			slots[sj].pos = sl.pos;
			had_copy	  = true;
			c.cls("copy_or_assign");
			VLOG(c, "op " << op << " slot " << sj << " := slot " << si);
		}
	}
	if(had_up && had_down && jump_after_run && knot_by_hunt && had_copy)
		c.nt();
	if(had_up && had_down)
		c.cls("hunt_both_directions");
}

VCLAUSE(history_2d, 12000, 6000, 100000, "the sequence contains correlated steps along both axes, a query on a grid line and a copy")
{
	Src& s = c.s;
	int sz = std::min(s.size, 100);
	int nx = (int) s.range(2, 3 + sz / 2), ny = (int) s.range(2, 3 + sz / 2);
	std::vector<double> x = gen_abscissae(s, nx, 4.0), y = gen_abscissae(s, ny, 4.0);
	std::vector<std::vector<double>> fv(nx, std::vector<double>(ny));
	for(auto& r : fv)
		for(auto& v : r)
			v = s.mixed(-6, 6);
	VLOG(c, "grid " << nx << "x" << ny << " x=" << show(x, 8) << " y=" << show(y, 8));
	Interpolation_2D pristine;
	VMUST_RETURN("Interpolation_2D constructor", pristine = Interpolation_2D(x, y, fv));
	std::vector<Interpolation_2D> obj(2, pristine);
	std::vector<double> P(2, 1.0);
	int ix = 0, iy = 0;
	int nops = (int) s.range(1, 4 + 3 * sz);
	bool stepped_x = false, stepped_y = false, on_line = false, copied = false;
	for(int op = 0; op < nops; op++)
	{
		int si = s.pick({3, 1});
		int kind = s.pick({10, 1, 1});
		if(kind == 0)
		{
			int m = s.pick({2, 6, 2, 1});
			double xq, yq;
			bool line = false;
			if(m == 0)
			{
				ix = (int) s.range(0, nx - 2);
				iy = (int) s.range(0, ny - 2);
			}
			else if(m == 1)
			{
				int dx = (int) s.range(-2, 2), dy = (int) s.range(-2, 2);
				if(dx)
					stepped_x = true;
				if(dy)
					stepped_y = true;
				ix = std::min(std::max(ix + dx, 0), nx - 2);
				iy = std::min(std::max(iy + dy, 0), ny - 2);
			}
			xq = x[ix] + (x[ix + 1] - x[ix]) * s.unit();
			yq = y[iy] + (y[iy + 1] - y[iy]) * s.unit();
			if(m == 2)
			{
				line = true;
				if(s.coin())
					xq = x[(int) s.range(0, nx - 1)];
				else
					yq = y[(int) s.range(0, ny - 1)];
				on_line = true;
			}
			if(m == 3)
			{
				xq = s.coin() ? x[0] - 0.0099 * (x[1] - x[0]) * s.unit() : x[nx - 1];
				yq = s.coin() ? y[ny - 1] + 0.0099 * (y[ny - 1] - y[ny - 2]) * s.unit() : y[0];
				line = true;
			}
			Interpolation_2D g = pristine;
			g.Set_Prefactor(P[si]);
			double v = 0, r = 0;
			VMUST_RETURN("Interpolation_2D::Interpolate", v = obj[si](xq, yq); r = g.Interpolate(xq, yq));
			VLOG(c, "op " << op << " obj " << si << " f(" << xq << "," << yq << ") = " << v);
			if(!line)
				VCHECK(same_bits(v, r), "op " << op << ": 2D Interpolate(" << xq << "," << yq << ") used = " << v << ", fresh = " << r);
			else
			{
				double sc = 0;
				for(auto& rr : fv)
					for(auto& e : rr)
						sc = std::max(sc, std::fabs(e));
				VCLOSE(c, "grid_line_value", v, r, 64 * EPS * sc * std::fabs(P[si]), "op " << op << ": 2D value on a grid line / in the extrapolation zone, used vs fresh");
			}
		}
		else if(kind == 1)
		{
			double fac = s.sign() * std::ldexp(1.0, (int) s.range(-6, 6)) * (s.coin() ? 1.0 : 3.0);
			if(s.coin())
			{
				obj[si].Set_Prefactor(fac);
				P[si] = fac;
			}
			else
			{
				obj[si].Multiply(fac);
				P[si] *= fac;
			}
			VLOG(c, "op " << op << " obj " << si << " prefactor -> " << P[si]);
		}
		else
		{
			int sj = 1 - si;
			if(s.coin())
			{
				Interpolation_2D cp(obj[si]);
				obj[sj] = cp;
			}
			else
				obj[sj] = obj[si];
			P[sj]  = P[si];
			copied = true;
			VLOG(c, "op " << op << " obj " << sj << " := obj " << si);
		}
	}
	if(stepped_x && stepped_y && on_line && copied)
		c.nt();
}
