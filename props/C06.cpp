// C06 Gamma-function family is accurate over its whole domain and self-consistent
#include "../engine/harness.hpp"
#include "../engine/refmath.hpp"

#include "libphysica/Special_Functions.hpp"

using namespace vf;
using namespace libphysica;
const char* const vf::kPropertyId = "C06";

// ---- Factorial: every call order (the memo table grows on demand). Must be the FIRST clause: it is fork-isolated, so every
// case starts from the pristine memo table of a process that has never called Factorial.
VCLAUSE_ISOLATED(factorial_history, 80, 1500, 40000, "the first call is not the largest argument (the table grows in several steps) and arguments repeat", 30.0)
{
	int ncalls = (int) c.s.range(1, 40);
	std::vector<unsigned> order;
	int mode = c.s.pick({2, 1, 1, 1});
	for(int i = 0; i < ncalls; i++)
	{
		unsigned n;
		if(mode == 1)
			n = (unsigned) std::min<long>(170, i * c.s.range(1, 9));   // increasing
		else if(mode == 2)
			n = (unsigned) std::max<long>(0, 170 - i * c.s.range(1, 9));   // decreasing
		else
			n = (unsigned) c.s.range(0, 170);
		if(c.s.chance(0.15) && !order.empty())
			n = order[(size_t) c.s.range(0, (long) order.size() - 1)];
		order.push_back(n);
	}
	VLOG(c, "call order: " << show(std::vector<double>(order.begin(), order.end()), 40));
	// reference: ascending table computed by a pristine child
	std::vector<double> fresh;
	bool ok = run_in_child(
		[]() {
			std::vector<double> t;
			for(unsigned n = 0; n <= 170; n++)
				t.push_back(Factorial(n));
			return t;
		},
		fresh);
	VCHECK(ok && fresh.size() == 171, "pristine process failed to tabulate Factorial(0..170) in ascending order");
	unsigned maxn = 0;
	bool grows_later = false, repeats = false;
	std::map<unsigned, double> seen;
	for(size_t i = 0; i < order.size(); i++)
	{
		unsigned n = order[i];
		double v   = 0;
		VMUST_RETURN("Factorial(" << n << ")", v = Factorial(n));
		long double ref = ref::tgamma((long double) n + 1.0L);
		VCLOSE(c, "factorial_vs_reference", v, (double) ref, (n + 2.0) * EPS * (double) ref, "Factorial(" << n << ") as call #" << i);
		VCHECK(same_bits(v, fresh[n]), "Factorial(" << n << ") as call #" << i << " = " << v << " differs from the value " << fresh[n] << " a fresh process computes in ascending order");
		if(seen.count(n))
		{
			repeats = true;
			VCHECK(same_bits(seen[n], v), "Factorial(" << n << ") changed between calls: " << seen[n] << " then " << v);
		}
		seen[n] = v;
		if(i > 0 && n > maxn)
			grows_later = true;
		maxn = std::max(maxn, n);
	}
	if(grows_later && repeats)
		c.nt();
	// recurrence n! = n (n-1)! on the used table
	for(unsigned n = 1; n <= maxn; n++)
	{
		double a = 0, b = 0;
		VMUST_RETURN("Factorial recurrence", a = Factorial(n); b = Factorial(n - 1));
		VCLOSE(c, "factorial_recurrence", a, n * b, 2 * EPS * a, "n!=n*(n-1)! at n=" << n);
	}
	// beyond 170: overflow must stop the program
	if(c.s.chance(0.3))
	{
		unsigned big = c.s.coin() ? 171u : (c.s.coin() ? 4294967295u : (unsigned) c.s.range(172, 100000));
		c.cls("factorial_overflow");
		VMUST_EXIT("Factorial(" << big << ")", double v = Factorial(big); (void) v);
		double again = 0;
		VMUST_RETURN("Factorial after a rejected call", again = Factorial(170));
		VCHECK(same_bits(again, fresh[170]), "Factorial(170) after a rejected call");
	}
}

VCLAUSE(gammaln, 10, 40000, 1000000, "x < 1 or x > 100 (outside the range the unit tests sample)")
{
	double x = c.s.chance(0.2) ? (double) c.s.range(1, 400) / (c.s.coin() ? 1.0 : 2.0) : std::pow(10.0, c.s.uniform(-6, 4));
	if(x < 1 || x > 100)
		c.nt();
	VLOG(c, "x=" << x);
	double gl = 0, gl1 = 0;
	VMUST_RETURN("GammaLn", gl = GammaLn(x); gl1 = GammaLn(x + 1));
	long double ref = ref::lgamma((long double) x);
	VCLOSE(c, "gammaln_vs_reference", gl, (double) ref, 16 * EPS * std::max(1.0, (double) fabsl(ref)), "GammaLn(" << x << ")");
	// recurrence lnG(x+1) = ln x + lnG(x)
	VCLOSE(c, "gammaln_recurrence", gl1, (double) (logl((long double) x) + (long double) gl), 32 * EPS * std::max({1.0, std::fabs(gl), std::fabs(gl1)}), "GammaLn(x+1)=ln(x)+GammaLn(x) at x=" << x);
	if(x <= 170.0)
	{
		double g = 0, g1 = 0;
		VMUST_RETURN("Gamma", g = Gamma(x); g1 = Gamma(x + 1));
		long double tg = ref::tgamma((long double) x);
		double rel	   = 32 * EPS * std::max(1.0, (double) fabsl(ref));
		VCLOSE(c, "gamma_vs_reference", g / (double) tg, 1.0, rel, "Gamma(" << x << ")=" << g << " reference " << (double) tg);
		double rel1 = 64 * EPS * std::max({1.0, (double) fabsl(ref), std::fabs(gl1)});
		VCLOSE(c, "gamma_recurrence", g1 / (x * g), 1.0, rel1, "Gamma(x+1)=x*Gamma(x) at x=" << x);
	}
	if(c.s.chance(0.05))
	{
		double bad = c.s.coin() ? 0.0 : -std::pow(10.0, c.s.uniform(-6, 3));
		c.cls("gammaln_invalid");
		VMUST_EXIT("GammaLn(" << bad << ")", double v = GammaLn(bad); (void) v);
	}
}

VCLAUSE(binomial, 10, 40000, 1000000, "n > 170 (logarithmic branch) or the result exceeds 2^53")
{
	int n = (int) c.s.range(0, 400), k = (int) c.s.range(0, n);
	if(c.s.chance(0.2))
		n = (int) c.s.range(165, 176), k = (int) c.s.range(0, n);
	VLOG(c, "n=" << n << " k=" << k);
	double b = 0, bs = 0;
	VMUST_RETURN("Binomial_Coefficient", b = Binomial_Coefficient(n, k); bs = Binomial_Coefficient(n, n - k));
	long double ref = ref::binomial((unsigned) n, (unsigned) k);
	long double lg	= ref::lgamma((long double) n + 1.0L);
	double rel		= n > 170 ? 64 * EPS * std::max(1.0, (double) lg) : 8 * EPS;
	if(n > 170 || ref > 9.0e15L)
		c.nt();
	// factorial quotient + rounding to the nearest integer is exact while the quotient's rounding error (3 roundings of the
	// quotient, 3 of the factorials' products: < 8 eps relative) stays below 1/2
	if(ref < 1.0e14L && n <= 170)
		VCHECK(b == (double) ref, "Binomial_Coefficient(" << n << "," << k << ")=" << b << " exact value " << (double) ref);
	else
		VCLOSE(c, "binomial_vs_reference", b / (double) ref, 1.0, rel, "Binomial_Coefficient(" << n << "," << k << ")=" << b << " reference " << (double) ref);
	VCLOSE(c, "binomial_symmetry", bs / b, 1.0, 2 * rel, "C(n,k) vs C(n,n-k) at n=" << n << " k=" << k);
	if(n >= 1 && k >= 1 && k <= n - 1)
	{
		double p1 = 0, p2 = 0;
		VMUST_RETURN("Binomial_Coefficient (Pascal)", p1 = Binomial_Coefficient(n - 1, k - 1); p2 = Binomial_Coefficient(n - 1, k));
		VCLOSE(c, "binomial_pascal", (p1 + p2) / b, 1.0, 3 * rel, "Pascal's rule at n=" << n << " k=" << k);
	}
	if(c.s.chance(0.1))
	{
		int kk = n + (int) c.s.range(1, 5);
		double z = 1;
		VMUST_RETURN("Binomial_Coefficient with k>n", z = Binomial_Coefficient(n, kk));
		VCHECK(z == 0.0, "C(" << n << "," << kk << ")=" << z << " expected 0");
	}
	if(c.s.chance(0.05))
	{
		c.cls("binomial_negative");
		bool negn = c.s.coin();
		VMUST_EXIT("Binomial_Coefficient with a negative argument", double v = Binomial_Coefficient(negn ? -1 - (int) c.s.range(0, 5) : n, negn ? k : -1 - (int) c.s.range(0, 5)); (void) v);
	}
}

namespace
{
// (x,a) over the quantifier's domain, dense around the switch-overs x=a+1 and a=100
void gen_xa(Ctx& c, double& x, double& a)
{
	Src& s = c.s;
	int am = s.pick({10, 4, 2, 1, 1});
	if(am == 3)
		a = std::pow(10.0, s.uniform(-12, -3));	  // "all a in (0,1e4]": the small end
	else if(am == 4)
	{	// exactly on the switch-overs
		a = s.coin() ? 100.0 : (s.coin() ? 1.0 : (double) s.range(1, 200));
		c.cls("a_exactly_special");
	}
	else if(am == 0)
		a = std::pow(10.0, s.uniform(-3, 4));
	else if(am == 1)
		a = 100.0 + s.sign() * std::pow(10.0, s.uniform(-9, 0.3));	  // within ~2 of the a=100 switch-over
	else
		a = (double) s.range(1, 300) / (s.coin() ? 1.0 : 2.0);
	if(a <= 0)
		a = 1e-3;
	double xmax = a + 40 * std::sqrt(a) + 40;
	int xm		= s.pick({8, 6, 4, 2, 1});
	if(xm == 4)
	{
		x = a + 1.0;   // exactly on the series / continued-fraction switch, and its neighbours
		int st = (int) s.range(-2, 2);
		for(int i = 0; i < std::abs(st); i++)
			x = std::nextafter(x, st > 0 ? 1e308 : 0.0);
		c.cls("x_exactly_a_plus_1");
	}
	else if(xm == 0)
		x = s.uniform(0, xmax);
	else if(xm == 1)
		x = (a + 1.0) + s.sign() * 1e-3 * (1 + a) * std::pow(10.0, s.uniform(-6, 0));	// both sides of x=a+1
	else if(xm == 2)
		x = a + s.uniform(-6, 6) * std::sqrt(a);
	else
		x = xmax * std::pow(10.0, s.uniform(-8, 0));
	if(x < 0)
		x = 0;
	if(x > xmax)
		x = xmax;
	bool near_switch = std::fabs(x - (a + 1)) <= 1e-3 * (1 + a) || std::fabs(a - 100) <= 2;
	if(near_switch)
		c.cls("near_switch_over");
	if(a > 100)
		c.cls("region_quadrature");
	else if(x < a + 1)
		c.cls("region_series");
	else
		c.cls("region_continued_fraction");
	if(near_switch || (a <= 100 && x >= a + 1) || a > 100)
		c.nt();
}
}	// namespace

VCLAUSE(incomplete_gamma, 20, 30000, 800000, "point within the switch-over neighbourhoods (|x-(a+1)|<=1e-3(1+a) or |a-100|<=2) or in the continued-fraction / quadrature region")
{
	double x, a;
	gen_xa(c, x, a);
	VLOG(c, "x=" << x << " a=" << a);
	double P = 0, Q = 0;
	VMUST_RETURN("GammaP/GammaQ(" << x << "," << a << ")", P = GammaP(x, a); Q = GammaQ(x, a));
	long double rp = ref::gamma_p(a, x), rq = ref::gamma_q(a, x);
	double acc	   = a <= 100.0 ? 1e-12 : 1e-3;
	VCHECK(P >= 0.0 && P <= 1.0 && Q >= 0.0 && Q <= 1.0, "P=" << P << " Q=" << Q << " outside [0,1] at x=" << x << " a=" << a);
	// "sum to one": to the accuracy both are promised to (an implementation is free to compute P and Q independently); exact complementarity is counted
	VCLOSE(c, "P_plus_Q", P + Q, 1.0, 2 * acc, "P+Q at x=" << x << " a=" << a);
	if(std::fabs(P + Q - 1.0) <= 4 * EPS)
		c.cls("P_plus_Q_exact_to_rounding");
	VCLOSE(c, a <= 100 ? "P_vs_reference_a_le_100" : "P_vs_reference_a_gt_100", P, (double) rp, acc, "GammaP(" << x << "," << a << ")");
	VCLOSE(c, a <= 100 ? "Q_vs_reference_a_le_100" : "Q_vs_reference_a_gt_100", Q, (double) rq, acc, "GammaQ(" << x << "," << a << ")");
	// monotone in x: a second point x2 > x, close (crossing the switch-over when near it) or far
	double dx = c.s.coin() ? (1 + a) * std::pow(10.0, c.s.uniform(-9, -2)) : c.s.uniform(0, 5) * (1 + std::sqrt(a));
	double x2 = x + dx, P2 = 0, Q2 = 0;
	VMUST_RETURN("GammaP/GammaQ at the second point", P2 = GammaP(x2, a); Q2 = GammaQ(x2, a));
	VCHECK(P2 >= P - 2 * acc && Q2 <= Q + 2 * acc, "not monotone in x within the accuracy class: P(" << x << ")=" << P << " P(" << x2 << ")=" << P2 << " a=" << a);
	// "monotone in x" on its own, beyond what the accuracy class implies: a decrease may only be rounding noise of the evaluation. Both branches
	// for a<=100 sum a series / continued fraction to 1e-15 relative of a prefactor known to ~|log|*eps; the measured worst decrease on the repaired
	// tree is recorded, the bound is 100 times the rounding level of the prefactor
	double noise = 64 * EPS * (1 + std::fabs(a * std::log(std::max(x2, 1e-300)) - x2)) ;
	c.ratio(a <= 100 ? "monotone_decrease_a_le_100/noise" : "monotone_decrease_a_gt_100/1e-9", std::max(0.0, P - P2) / (a <= 100 ? noise : 1e-9));
	if(a <= 100)
		VCHECK(P - P2 <= noise && Q2 - Q <= noise, "P decreases (Q increases) in x by more than rounding: P(" << x << ")=" << P << " P(" << x2 << ")=" << P2 << " a=" << a << " difference " << P - P2 << " allowed " << noise);
	// the second point against the reference too
	VCLOSE(c, a <= 100 ? "P2_vs_reference_a_le_100" : "P2_vs_reference_a_gt_100", P2, (double) ref::gamma_p(a, x2), acc, "GammaP(" << x2 << "," << a << ")");
	// Upper + Lower = Gamma
	if(a <= 170.0)
	{
		double up = 0, lo = 0, g = 0;
		VMUST_RETURN("Upper/Lower_Incomplete_Gamma", up = Upper_Incomplete_Gamma(x, a); lo = Lower_Incomplete_Gamma(x, a); g = Gamma(a));
		VCLOSE(c, "upper_plus_lower", (up + lo) / g, 1.0, 2 * acc + 8 * EPS, "Upper+Lower=Gamma at x=" << x << " a=" << a);
		long double tg = ref::tgamma((long double) a), lg = fabsl(ref::lgamma((long double) a));
		double tolg	   = (double) tg * (acc + 64 * EPS * std::max(1.0, (double) lg));
		VCLOSE(c, "lower_vs_reference", lo, (double) (tg * rp), tolg, "Lower_Incomplete_Gamma(" << x << "," << a << ")");
		VCLOSE(c, "upper_vs_reference", up, (double) (tg * rq), tolg, "Upper_Incomplete_Gamma(" << x << "," << a << ")");
	}
	if(c.s.chance(0.03))
	{
		c.cls("gammaq_invalid");
		bool badx = c.s.coin();
		VMUST_EXIT("GammaQ with invalid arguments", double v = GammaQ(badx ? -std::pow(10.0, c.s.uniform(-9, 2)) : x, badx ? a : -std::pow(10.0, c.s.uniform(-9, 2)) * c.s.range(0, 1)); (void) v);
	}
}

VCLAUSE(inverse_gamma, 20, 12000, 300000, "p within 1e-3 of 0 or 1, or a<1, or a>100")
{
	Src& s = c.s;
	double a;
	switch(s.pick({10, 2, 2, 2, 1}))
	{
		case 0: a = std::pow(10.0, s.uniform(-3, 4)); break;
		case 1: a = 100.0 + s.sign() * std::pow(10.0, s.uniform(-6, 0.3)); break;
		case 2: a = (double) s.range(1, 120); break;
		case 3: a = std::pow(10.0, s.uniform(2, 4)); break;		  // large a, where the far tails underflow the density (D16, D22)
		default: a = std::pow(10.0, s.uniform(-8, -3)); break;	  // the small end of (0,1e4]
	}
	double p;
	int pm = s.pick({2, 2, 2});
	if(pm == 0)
		p = s.uniform(0.001, 0.999);
	else if(pm == 1)
		p = std::pow(10.0, s.uniform(-12, -3));
	else
		p = 1.0 - std::pow(10.0, s.uniform(-12, -3));
	// inputs that failed once (needles no random search finds again: D22 needs a Halley iterate whose density is subnormal but not zero)
	if(s.chance(0.01))
	{
		static const double hist[][2] = {{0.99999999999899969, 9997.5408762258539}, {1 - 1e-12 * (1 + 1e-3), 2824.13}, {0.999999999999, 5000.0}};
		int h = (int) s.range(0, 2);
		p	  = hist[h][0];
		a	  = hist[h][1];
		c.cls("historical_input");
	}
	if(!(p > 1e-12 && p < 1 - 1e-12))
		throw Discard();
	bool useQ = s.coin();
	if(a == 9997.5408762258539)
		useQ = false;	// the recorded failure is one of Inv_GammaP
	if(pm != 0 || a < 1 || a > 100)
		c.nt();
	c.cls(a > 100 ? "a_gt_100" : (a < 1 ? "a_lt_1" : "a_1_to_100"));
	VLOG(c, (useQ ? "Inv_GammaQ" : "Inv_GammaP") << " p=" << p << " a=" << a);
	double x = 0;
	VMUST_RETURN((useQ ? "Inv_GammaQ(" : "Inv_GammaP(") << p << "," << a << ")", x = useQ ? Inv_GammaQ(p, a) : Inv_GammaP(p, a));
	VCHECK(std::isfinite(x) && x >= 0, "inverse returned " << x);
	// for small a the exact inverse x=(p*Gamma(a+1))^(1/a) can lie below the range of double (the statement cannot be met by any
	// double): then only "the result is at most the smallest normal number" is asserted
	long double xref = useQ ? ref::gamma_q_inv(a, p) : ref::gamma_p_inv(a, p);
	if(!(xref > 1e-290L))
	{
		c.cls("exact_inverse_underflows");
		VCHECK(x <= 1e-280, "exact inverse " << (double) xref << " underflows but " << x << " was returned");
		return;
	}
	long double back = useQ ? ref::gamma_q(a, x) : ref::gamma_p(a, x);
	double acc		 = a <= 100.0 ? 1e-7 : 2e-3;
	// the statement's own wording: P(Inv_GammaP(p,a),a)=p with the library's P, to 1e-7 (a<=100) / 1e-3 (a>100)
	double self = 0;
	VMUST_RETURN("GammaP/GammaQ at the inverse", self = useQ ? GammaQ(x, a) : GammaP(x, a));
	VCLOSE(c, a <= 100 ? "inverse_roundtrip_library_P_a_le_100" : "inverse_roundtrip_library_P_a_gt_100", self, p, a <= 100.0 ? 1e-7 : 1e-3, (useQ ? "GammaQ" : "GammaP") << "(Inv(" << p << "," << a << ")=" << x << ") evaluated with the library");
	VCLOSE(c, a <= 100 ? "inverse_roundtrip_a_le_100" : "inverse_roundtrip_a_gt_100", (double) back, p, acc, (useQ ? "Q" : "P") << "(Inv(" << p << "," << a << ")=" << x << ") evaluated with the reference");
	if(c.s.chance(0.03))
	{
		c.cls("inverse_invalid");
		VMUST_EXIT("Inv_GammaP with a<=0", double v = Inv_GammaP(p, -std::pow(10.0, c.s.uniform(-9, 2)) * c.s.range(0, 1)); (void) v);
	}
}
