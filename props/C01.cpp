// C01 Interpolants reproduce the data and never overshoot it
#include "../engine/harness.hpp"
#include "../engine/interp_common.hpp"

#include "libphysica/Numerics.hpp"

using namespace vf;
using libphysica::Interpolation;
using libphysica::Interpolation_2D;
const char* const vf::kPropertyId = "C01";

namespace
{
Interpolation make(const Table& t, bool pairs)
{
	if(pairs)
	{
		std::vector<std::vector<double>> d;
		for(size_t i = 0; i < t.x.size(); i++)
			d.push_back({t.x[i], t.y[i]});
		return Interpolation(d, t.xdim, t.fdim);
	}
	return Interpolation(t.x, t.y, t.xdim, t.fdim);
}
double max3(double a, double b, double c) { return std::max(std::fabs(a), std::max(std::fabs(b), std::fabs(c))); }
}	// namespace

// value at the knots, no overshoot, monotone pieces, continuity of value and slope
VCLAUSE(shape_1d, 900, 6000, 150000, "the table has an interior knot where the slope limiter is active and neighbouring intervals differ by a factor >= 10")
{
	Table t = gen_table(c.s, 3, 300);
	int N	= (int) t.x.size();
	bool pairs = c.s.coin();
	if(t.limiter_active && t.max_gap_ratio >= 10)
		c.nt();
	c.cls(t.kind.c_str());
	c.cls(t.limiter_active ? "limiter_active" : "limiter_inactive");
	c.cls(t.max_gap_ratio >= 1e3 ? "gap_ratio_ge_1e3" : "gap_ratio_lt_1e3");
	VLOG(c, show_table(t) << " ctor=" << (pairs ? "pairs" : "lists"));
	Interpolation f;
	VMUST_RETURN("Interpolation constructor on a valid table", f = make(t, pairs));
	std::vector<double> X = t.X(), Y = t.Y();
	VCHECK(f.domain.size() == 2 && f.domain[0] == X[0] && f.domain[1] == X[N - 1], "domain {" << f.domain[0] << "," << f.domain[1] << "} expected {" << X[0] << "," << X[N - 1] << "}");
	// (a) knots, visited in a generated order so that both search modes are exercised
	int nk = std::min(N, 40);
	for(int q = 0; q < nk; q++)
	{
		int i	   = (q < 2) ? (q == 0 ? 0 : N - 1) : (int) c.s.range(0, N - 1);
		double v   = 0;
		VMUST_RETURN("Interpolate at knot " << i, v = f(X[i]));
		double sc = max3(Y[std::max(i - 1, 0)], Y[i], Y[std::min(i + 1, N - 1)]);
		VCLOSE(c, "knot_value", v, Y[i], 128 * EPS * sc, "value at knot " << i << " x=" << X[i]);
	}
	// (b) inside intervals
	int nseg = std::min(N - 1, 30);
	for(int q = 0; q < nseg; q++)
	{
		int i = (N - 1 <= 30) ? q : (int) c.s.range(0, N - 2);
		double x0 = X[i], x1 = X[i + 1], y0 = Y[i], y1 = Y[i + 1], h = x1 - x0;
		double lo = std::min(y0, y1), hi = std::max(y0, y1), sc = std::max(std::fabs(y0), std::fabs(y1));
		double tol0 = 128 * EPS * sc;
		std::vector<double> xs = {x0, std::nextafter(x0, x1)};
		int ni = (int) c.s.range(3, 9);
		for(int k = 1; k <= ni; k++)
			xs.push_back(x0 + h * (k / (ni + 1.0)));
		xs.push_back(x0 + h * 1e-6);
		xs.push_back(x1 - h * 1e-6);
		xs.push_back(std::nextafter(x1, x0));
		xs.push_back(x1);
		std::sort(xs.begin(), xs.end());
		double prev = 0, prev_tol = 0;
		bool have	= false;
		for(double x : xs)
		{
			if(!(x >= x0 && x <= x1))
				continue;
			double v = 0;
			VMUST_RETURN("Interpolate inside the domain", v = f.Interpolate(x));
			// exactly at the left knot the value may legitimately be computed from the previous interval's cubic (right end), whose
			// rounding scales with that interval's ordinates
			double tol = (x == x0 && i > 0) ? 128 * EPS * std::max(sc, std::fabs(Y[i - 1])) : tol0;
			VCHECK(v >= lo - tol && v <= hi + tol, "overshoot in interval " << i << " [" << x0 << "," << x1 << "] values [" << y0 << "," << y1 << "]: f(" << x << ")=" << v);
			c.ratio("overshoot", std::max(lo - v, v - hi) / tol);
			if(have)
			{
				double d = v - prev;
				tol		 = std::max(tol, prev_tol);
				VCHECK(y1 >= y0 ? d >= -tol : d <= tol, "not monotone in interval " << i << " [" << x0 << "," << x1 << "] values [" << y0 << "," << y1 << "]: f(" << x << ")=" << v << " after " << prev);
			}
			prev	 = v;
			prev_tol = tol;
			have	 = true;
		}
	}
	// (c) continuity of value and first derivative across interior knots (one-sided neighbours)
	int nc = std::min(N - 2, 20);
	for(int q = 0; q < nc; q++)
	{
		int i = (N - 2 <= 20) ? q + 1 : (int) c.s.range(1, N - 2);
		double xl = std::nextafter(X[i], -INFINITY), xr = std::nextafter(X[i], INFINITY);
		if(!(xl > X[i - 1] && xr < X[i + 1]))
			continue;
		double hl = X[i] - X[i - 1], hr = X[i + 1] - X[i];
		double sl = std::fabs((Y[i] - Y[i - 1]) / hl), sr = std::fabs((Y[i + 1] - Y[i]) / hr), smax = std::max(sl, sr);
		double u  = ulp_of(X[i]);
		double vl = 0, vr = 0, dl = 0, dr = 0, d0 = 0;
		VMUST_RETURN("Interpolate/Derivative next to a knot", vl = f(xl); vr = f(xr); dl = f.Derivative(xl, 1); dr = f.Derivative(xr, 1); d0 = f.Derivative(X[i], 1));
		double sc	= max3(Y[i - 1], Y[i], Y[i + 1]);
		double tolv = 256 * EPS * sc + 8 * smax * u;
		VCLOSE(c, "value_continuity", vl, vr, tolv, "value jump across knot " << i << " x=" << X[i]);
		// |f''| <= (6*6+2*9)|s|/h inside an interval (Hermite cubic with end slopes <= 2|s|)
		double told = 512 * EPS * smax + 60 * (sl / hl + sr / hr) * 2 * u;
		VCLOSE(c, "slope_continuity", dl, dr, told, "first derivative jump across knot " << i << " x=" << X[i] << " (left " << dl << ", right " << dr << ")");
		VCLOSE(c, "slope_at_knot", d0, dr, told, "first derivative at the knot vs its right neighbour, knot " << i);
	}
	// (f) 1% extrapolation zone at both ends: the edge cubic continues, bounded departure from the end value
	for(int side = 0; side < 2; side++)
	{
		int i	 = side == 0 ? 0 : N - 2;
		double h = X[i + 1] - X[i], dy = std::fabs(Y[i + 1] - Y[i]);
		double frac = c.s.unit() * 0.0099;
		double x	= side == 0 ? X[0] - frac * h : X[N - 1] + frac * h;
		if((side == 0 && !(x < X[0])) || (side == 1 && !(x > X[N - 1])))
			continue;
		if(std::fabs(x - (side == 0 ? X[0] : X[N - 1])) >= 0.0099 * h)
			continue;
		double v = 0;
		VMUST_RETURN("Interpolate in the 1% extrapolation zone", v = f(x));
		double yend = side == 0 ? Y[0] : Y[N - 1];
		double sc	= std::max(std::fabs(Y[i]), std::fabs(Y[i + 1]));
		VCLOSE(c, "extrapolation_zone", v, yend, 0.03 * dy + 128 * EPS * sc, "value in the extrapolation zone at x=" << x << " (end value " << yend << ")");
	}
}

// reported derivatives are the derivatives of the returned curve
VCLAUSE(derivatives_1d, 700, 6000, 150000, "the queried interval is adjacent to an interval at least 10 times longer or shorter, or the limiter is active")
{
	Table t = gen_table(c.s, 3, 120);
	int N	= (int) t.x.size();
	VLOG(c, show_table(t));
	Interpolation f;
	VMUST_RETURN("Interpolation constructor", f = make(t, false));
	std::vector<double> X = t.X(), Y = t.Y();
	if(t.limiter_active || t.max_gap_ratio >= 10)
		c.nt();
	int nq = std::min(N - 1, 12);
	for(int q = 0; q < nq; q++)
	{
		int i	  = (int) c.s.range(0, N - 2);
		double x0 = X[i], h = X[i + 1] - X[i];
		if(h < 64 * ulp_of(std::max(std::fabs(X[i]), std::fabs(X[i + 1]))) * 1e6)
			continue;	// interval too short relative to the resolution of x for divided differences
		// recover the cubic of this segment from four samples (Newton divided differences in long double)
		long double tn[4] = {0.13L, 0.37L, 0.64L, 0.88L}, xn[4], fn[4];
		for(int k = 0; k < 4; k++)
		{
			double xk = x0 + (double) tn[k] * h;
			double vk = 0;
			VMUST_RETURN("Interpolate", vk = f.Interpolate(xk));
			xn[k] = ((long double) xk - x0) / h;	 // normalised abscissa actually used
			fn[k] = vk;
		}
		long double dd[4] = {fn[0], fn[1], fn[2], fn[3]};
		for(int lev = 1; lev < 4; lev++)
			for(int k = 3; k >= lev; k--)
				dd[k] = (dd[k] - dd[k - 1]) / (xn[k] - xn[k - lev]);
		// p(t) = dd0 + dd1 (t-t0) + dd2 (t-t0)(t-t1) + dd3 (t-t0)(t-t1)(t-t2); derivatives by expanding to monomials
		long double c3 = dd[3], c2 = dd[2] - dd[3] * (xn[0] + xn[1] + xn[2]);
		long double c1 = dd[1] - dd[2] * (xn[0] + xn[1]) + dd[3] * (xn[0] * xn[1] + xn[0] * xn[2] + xn[1] * xn[2]);
		double sc	   = std::max(std::fabs(Y[i]), std::fabs(Y[i + 1]));
		double tq	   = c.s.pick({1, 1, 3}) == 0 ? 0.0 : c.s.unit();
		double xq	   = x0 + tq * h;
		if(xq > X[i + 1])
			xq = X[i + 1];
		long double tt = ((long double) xq - x0) / h;
		if(tq == 0.0)
			tt = 0;
		long double p1 = c1 + 2 * c2 * tt + 3 * c3 * tt * tt, p2 = 2 * c2 + 6 * c3 * tt, p3 = 6 * c3;
		double d0 = 0, d1 = 0, d2 = 0, d3 = 0, d4 = 1, d7 = 1, v = 0;
		// interior query: the object is fresh on this segment after the sample calls, the segment is the same
		if(xq == X[i + 1])
			continue;	// at a knot the higher derivatives are two-valued (see C09); interior and left knot only
		VMUST_RETURN("Derivative", v = f.Interpolate(xq); d0 = f.Derivative(xq, 0); d1 = f.Derivative(xq, 1); d2 = f.Derivative(xq, 2); d3 = f.Derivative(xq, 3); d4 = f.Derivative(xq, 4); d7 = f.Derivative(xq, 7));
		VCHECK(same_bits(d0, v), "Derivative(x,0)=" << d0 << " differs from Interpolate(x)=" << v);
		VCHECK(d4 == 0.0 && d7 == 0.0, "derivative of order >= 4 of a cubic must vanish: " << d4 << ", " << d7);
		double tolk = 4e3 * EPS * sc;
		VCLOSE(c, "first_derivative", d1 * h, (double) p1, tolk, "Derivative(x,1)*h vs the cubic through four samples, interval " << i << " x=" << xq);
		VCLOSE(c, "second_derivative", d2 * h * h, (double) p2, 4 * tolk, "Derivative(x,2)*h^2 vs the cubic through four samples, interval " << i << " x=" << xq);
		VCLOSE(c, "third_derivative", d3 * h * h * h, (double) p3, 8 * tolk, "Derivative(x,3)*h^3 vs the cubic through four samples, interval " << i << " x=" << xq);
		// the last abscissa has a curve on its left only: there all three derivatives are single-valued (those of the last segment at its end)
		if(i == N - 2 || q == 0)
		{
			int il = N - 2;
			double xl0 = X[il], hl = X[il + 1] - X[il];
			if(il == i)
			{
				long double e1 = c1 + 2 * c2 + 3 * c3, e2 = 2 * c2 + 6 * c3;
				double l1 = 0, l2 = 0, l3 = 0;
				VMUST_RETURN("Derivative at the last abscissa", l1 = f.Derivative(X[N - 1], 1); l2 = f.Derivative(X[N - 1], 2); l3 = f.Derivative(X[N - 1], 3));
				c.cls("derivatives_at_last_abscissa");
				VCLOSE(c, "first_derivative_last_knot", l1 * hl, (double) e1, tolk, "Derivative(x_N,1)*h vs the end slope of the last segment's cubic");
				VCLOSE(c, "second_derivative_last_knot", l2 * hl * hl, (double) e2, 4 * tolk, "Derivative(x_N,2)*h^2 vs the last segment's cubic");
				VCLOSE(c, "third_derivative_last_knot", l3 * hl * hl * hl, (double) p3, 8 * tolk, "Derivative(x_N,3)*h^3 vs the last segment's cubic");
			}
			(void) xl0;
		}
	}
	// the 1% extrapolation zone at both ends: whatever curve is returned there, Derivative(x,1) is its derivative (central difference of Interpolate)
	for(int side = 0; side < 2; side++)
	{
		int i	 = side == 0 ? 0 : N - 2;
		double h = X[i + 1] - X[i], edge = side == 0 ? X[0] : X[N - 1];
		if(h < 64 * ulp_of(std::max(std::fabs(X[i]), std::fabs(X[i + 1]))) * 1e9)
			continue;
		double t  = 0.002 + 0.006 * c.s.unit(), dl = 0.001 * h;
		double xq = side == 0 ? edge - t * h : edge + t * h;
		double vm = 0, vp = 0, d1 = 0;
		VMUST_RETURN("Interpolate/Derivative in the extrapolation zone", vm = f.Interpolate(xq - dl); vp = f.Interpolate(xq + dl); d1 = f.Derivative(xq, 1));
		double sc = std::max(std::fabs(Y[i]), std::fabs(Y[i + 1]));
		double fd = (vp - vm) / ((xq + dl) - (xq - dl));
		c.cls("derivative_in_extrapolation_zone");
		// rounding of the two values over 2*dl (eps*sc/1e-3) plus truncation dl^2/6 f''' (cubic coefficients are a few times the ordinates)
		VCLOSE(c, "first_derivative_zone", d1 * h, fd * h, 1e-4 * sc + 1e-9 * std::fabs(fd * h), "Derivative(x,1) in the extrapolation zone beyond " << (side ? "the last" : "the first") << " abscissa vs the central difference of Interpolate at x=" << xq);
	}
}

// straight lines (exactly for dyadic data) and parabola branches with inactive limiter are reproduced
VCLAUSE(reproduction_1d, 400, 6000, 150000, "non-uniform grid (neighbouring gap ratio >= 2)")
{
	Src& s	 = c.s;
	int N	 = (int) s.sized(3, 60);
	int kind = s.pick({2, 2, 3});	// dyadic line, general line, parabola branch
	double ratio = 1;
	std::vector<double> x;
	if(kind == 0)
	{
		// dyadic abscissae with varying dyadic gaps; all arithmetic of the construction is exact
		x.resize(N);
		x[0] = (double) s.range(-32, 32) * 0.25;
		for(int i = 1; i < N; i++)
			x[i] = x[i - 1] + std::ldexp(1.0, (int) s.range(-3, 3));
	}
	else
		x = gen_abscissae(s, N, 3.0, &ratio);
	for(int i = 2; i < N; i++)
		ratio = std::max(ratio, std::max((x[i] - x[i - 1]) / (x[i - 1] - x[i - 2]), (x[i - 1] - x[i - 2]) / (x[i] - x[i - 1])));
	if(ratio >= 2)
		c.nt();
	std::vector<double> y(N);
	std::function<long double(long double)> exact;
	double m = 0, q = 0, al = 0, vx = 0, be = 0;
	if(kind == 0)
	{
		m = (double) s.range(-16, 16) * 0.125;
		q = (double) s.range(-64, 64) * 0.5;
		exact = [=](long double t) { return (long double) m * t + q; };
		c.cls("dyadic_line");
	}
	else if(kind == 1)
	{
		m = s.mixed(-6, 6);
		q = s.mixed(-6, 6);
		exact = [=](long double t) { return (long double) m * t + q; };
		c.cls("general_line");
	}
	else
	{
		// parabola branch on one side of the vertex: vertex outside the table by at least one edge interval
		al		   = s.sign() * std::pow(10.0, s.uniform(-3, 3));
		be		   = s.mixed(-3, 3);
		double span = x[N - 1] - x[0];
		vx		   = s.coin() ? x[0] - (x[1] - x[0]) - span * s.uniform(0, 2) : x[N - 1] + (x[N - 1] - x[N - 2]) + span * s.uniform(0, 2);
		exact	   = [=](long double t) { return (long double) al * (t - vx) * (t - vx) + be; };
		c.cls("parabola_branch");
	}
	long double ymax = 0;
	for(int i = 0; i < N; i++)
	{
		y[i] = (double) exact((long double) x[i]);
		ymax = std::max(ymax, fabsl((long double) y[i]));
	}
	if(kind == 2)
	{
		// the limiter must be inactive at every knot (verified from the data in long double), otherwise not this clause's domain
		for(int i = 0; i < N; i++)
		{
			long double p, s0, s1;
			if(i == 0 || i == N - 1)
			{
				int a = i == 0 ? 0 : N - 2, b = i == 0 ? 1 : N - 3;
				long double ha = (long double) x[a + 1] - x[a], hb = (long double) x[b + 1] - x[b];
				s0 = ((long double) y[a + 1] - y[a]) / ha;
				s1 = ((long double) y[b + 1] - y[b]) / hb;
				p  = s0 * (1 + ha / (ha + hb)) - s1 * ha / (ha + hb);
				if(p * s0 <= 0 || fabsl(p) > 1.98L * fabsl(s0))
					throw Discard();
			}
			else
			{
				long double h0 = (long double) x[i] - x[i - 1], h1 = (long double) x[i + 1] - x[i];
				s0 = ((long double) y[i] - y[i - 1]) / h0;
				s1 = ((long double) y[i + 1] - y[i]) / h1;
				p  = (s0 * h1 + s1 * h0) / (h0 + h1);
				if(s0 * s1 <= 0 || fabsl(p) > 1.98L * std::min(fabsl(s0), fabsl(s1)))
					throw Discard();
			}
		}
	}
	VLOG(c, "kind=" << kind << " N=" << N << " ratio=" << ratio << " x=" << show(x) << " y=" << show(y) << " m=" << m << " q=" << q << " al=" << al << " vx=" << vx << " be=" << be);
	Interpolation f;
	VMUST_RETURN("Interpolation constructor", f = Interpolation(x, y));
	int nq = 24;
	for(int k = 0; k < nq; k++)
	{
		// the first and last interval are always visited (only there a wrong boundary slope shows), and so is the 1% extrapolation zone
		// beyond either end, where the line / parabola must simply continue
		int i	  = k == 0 ? 0 : (k == 1 ? N - 2 : (int) s.range(0, N - 2));
		double xq = kind == 0 ? x[i] + (x[i + 1] - x[i]) * ((double) s.range(0, 16) / 16.0) : x[i] + (x[i + 1] - x[i]) * s.unit();
		if(k == 2 || k == 3)
		{
			i		 = k == 2 ? 0 : N - 2;
			double h = x[i + 1] - x[i], t = kind == 0 ? (double) s.range(1, 4) / 512.0 : 0.0099 * s.unit();
			xq		 = k == 2 ? x[0] - h * t : x[N - 1] + h * t;
			if(!(xq < x[0] || xq > x[N - 1]))
				xq = k == 2 ? x[0] : x[N - 1];
			c.cls("extrapolation_zone_query");
		}
		double v  = 0, d1 = 0;
		VMUST_RETURN("Interpolate", v = f(xq); d1 = f.Derivative(xq, 1));
		long double e = exact((long double) xq);
		if(kind == 0)
		{
			// the data carry no rounding error; only the one-sided end slopes (h0/(h0+h1) is not dyadic) and the evaluation round
			VCLOSE(c, "dyadic_line_value", v, (double) e, 16 * EPS * (double) ymax, "dyadic straight line: f(" << xq << ")");
			VCLOSE(c, "dyadic_line_slope", d1, m, 16 * EPS * std::fabs(m), "dyadic straight line: slope at " << xq);
		}
		else
		{
			// rounding of the tabulated values (eps*|y|) enters the slopes as eps*|y|/h and is carried over the neighbouring interval: factor (1+ratio)
			double tol = 256 * EPS * (double) ymax * (1 + ratio);
			VCLOSE(c, kind == 1 ? "line_reproduction" : "parabola_reproduction", v, (double) e, tol, "f(" << xq << ") vs the exact " << (kind == 1 ? "line" : "parabola") << " in interval " << i);
		}
	}
}

// ---- 2D ---------------------------------------------------------------------------------------------------------
VCLAUSE(bilinear_2d, 600, 6000, 150000, "non-square grid or non-uniform axes")
{
	Src& s = c.s;
	int nx = (int) s.sized(2, 24), ny = (int) s.sized(2, 24);
	double rx = 1, ry = 1;
	std::vector<double> x = gen_abscissae(s, nx, 6.0, &rx), y = gen_abscissae(s, ny, 6.0, &ry);
	int fmode = s.pick({2, 2, 1});
	double A = s.mixed(-3, 3), B = s.mixed(-3, 3), C = s.mixed(-3, 3), D = s.mixed(-3, 3);
	std::vector<std::vector<double>> fv(nx, std::vector<double>(ny));
	double mag = std::pow(10.0, s.uniform(-10, 10));
	for(int i = 0; i < nx; i++)
		for(int j = 0; j < ny; j++)
			fv[i][j] = fmode == 0 ? mag * s.uniform(-1, 1) : (fmode == 1 ? (double) ((long double) A + (long double) B * x[i] + (long double) C * y[j] + (long double) D * x[i] * y[j]) : s.mixed(-10, 10));
	double xd = -1, yd = -1, fd = -1;
	if(s.chance(0.2))
	{
		xd = std::ldexp(1.0, (int) s.range(-20, 20));
		yd = std::ldexp(1.0, (int) s.range(-20, 20));
		fd = s.coin() ? std::ldexp(1.0, (int) s.range(-20, 20)) : -1.0;
	}
	int ctor = (int) s.range(0, 1);
	if(nx != ny || rx >= 2 || ry >= 2)
		c.nt();
	c.cls(fmode == 1 ? "bilinear_data" : "random_data");
	c.cls(ctor ? "table_constructor" : "list_constructor");
	VLOG(c, "grid " << nx << "x" << ny << " x=" << show(x) << " y=" << show(y) << " fmode=" << fmode << " A,B,C,D=" << A << "," << B << "," << C << "," << D << " dims=" << xd << "," << yd << "," << fd << " ctor=" << ctor);
	Interpolation_2D f;
	if(ctor == 0)
		VMUST_RETURN("Interpolation_2D list constructor", f = Interpolation_2D(x, y, fv, xd, yd, fd));
	else
	{
		std::vector<std::vector<double>> tab;
		for(int i = 0; i < nx; i++)
			for(int j = 0; j < ny; j++)
				tab.push_back({x[i], y[j], fv[i][j]});
		VMUST_RETURN("Interpolation_2D table constructor", f = Interpolation_2D(tab, xd, yd, fd));
	}
	std::vector<double> X = x, Y = y;
	if(xd > 0)
		for(auto& v : X)
			v *= xd;
	if(yd > 0)
		for(auto& v : Y)
			v *= yd;
	double fs = fd > 0 ? fd : 1.0;
	// nodes
	for(int k = 0; k < 16; k++)
	{
		int i = (int) s.range(0, nx - 1), j = (int) s.range(0, ny - 1);
		double v = 0;
		VMUST_RETURN("Interpolate at a grid node", v = f(X[i], Y[j]));
		// (to rounding: an implementation f00 + t (f10 - f00) is as good as one that returns the stored value)
		VCLOSE(c, "grid_node", v, fv[i][j] * fs, 4 * EPS * std::fabs(fv[i][j] * fs), "grid node (" << i << "," << j << ")");
		if(v == fv[i][j] * fs)
			c.cls("grid_node_exact");
	}
	// cells
	for(int k = 0; k < 16; k++)
	{
		int i = (int) s.range(0, nx - 2), j = (int) s.range(0, ny - 2);
		double tx = s.pick({1, 4}) == 0 ? (s.coin() ? 1e-9 : 1 - 1e-9) : s.unit(), ty = s.pick({1, 4}) == 0 ? (s.coin() ? 1e-9 : 1 - 1e-9) : s.unit();
		double xq = X[i] + (X[i + 1] - X[i]) * tx, yq = Y[j] + (Y[j + 1] - Y[j]) * ty;
		if(!(xq >= X[i] && xq <= X[i + 1] && yq >= Y[j] && yq <= Y[j + 1]))
			continue;
		double f00 = fv[i][j] * fs, f10 = fv[i + 1][j] * fs, f11 = fv[i + 1][j + 1] * fs, f01 = fv[i][j + 1] * fs;
		double lo = std::min(std::min(f00, f10), std::min(f11, f01)), hi = std::max(std::max(f00, f10), std::max(f11, f01));
		double sc = std::max(std::fabs(lo), std::fabs(hi));
		double v  = 0;
		VMUST_RETURN("Interpolate inside a cell", v = f(xq, yq));
		VCHECK(v >= lo - 16 * EPS * sc && v <= hi + 16 * EPS * sc, "cell (" << i << "," << j << ") corners {" << f00 << "," << f10 << "," << f11 << "," << f01 << "}: f(" << xq << "," << yq << ")=" << v << " outside [min,max]");
		if(fmode == 1)
		{
			long double xo = (long double) xq / (xd > 0 ? xd : 1), yo = (long double) yq / (yd > 0 ? yd : 1);
			long double e  = ((long double) A + (long double) B * xo + (long double) C * yo + (long double) D * xo * yo) * fs;
			long double mg = (fabsl((long double) A) + fabsl((long double) B * xo) + fabsl((long double) C * yo) + fabsl((long double) D * xo * yo)) * fs;
			// corner values carry rounding eps*|corner|; weights t,u carry eps/(1-t) style errors bounded by eps * (|x|/hx + |y|/hy)
			long double cond = 1 + fabsl((long double) xq) / (X[i + 1] - X[i]) + fabsl((long double) yq) / (Y[j + 1] - Y[j]);
			double mgc		 = std::max((double) mg, std::max(std::max(std::fabs(f00), std::fabs(f10)), std::max(std::fabs(f11), std::fabs(f01))));
			VCLOSE(c, "bilinear_reproduction", v, (double) e, 32 * EPS * mgc * (double) cond, "bilinear function at (" << xq << "," << yq << ")");
		}
		// continuity across the cell edge x = X[i+1] (if interior) at this y
		if(i + 2 < nx)
		{
			double xe = X[i + 1], xl = std::nextafter(xe, -INFINITY), xr = std::nextafter(xe, INFINITY);
			double vl = 0, vr = 0, ve = 0;
			VMUST_RETURN("Interpolate across a cell edge", vl = f(xl, yq); vr = f(xr, yq); ve = f(xe, yq));
			double f21 = fv[i + 2][j] * fs, f22 = fv[i + 2][j + 1] * fs;
			double sc2 = std::max(sc, std::max(std::fabs(f21), std::fabs(f22)));
			double slope = (std::fabs(f10 - f00) + std::fabs(f11 - f01)) / (X[i + 1] - X[i]) + (std::fabs(f21 - f10) + std::fabs(f22 - f11)) / (X[i + 2] - X[i + 1]);
			double tol = 32 * EPS * sc2 + 4 * slope * ulp_of(xe);
			VCLOSE(c, "edge_continuity", vl, vr, tol, "jump across the cell edge x=" << xe << " at y=" << yq);
			VCLOSE(c, "edge_value", ve, vr, tol, "value on the cell edge x=" << xe << " at y=" << yq);
		}
		// ... and across the cell edge y = Y[j+1] at this x
		if(j + 2 < ny)
		{
			double ye = Y[j + 1], yl = std::nextafter(ye, -INFINITY), yr = std::nextafter(ye, INFINITY);
			double vl = 0, vr = 0, ve = 0;
			VMUST_RETURN("Interpolate across a cell edge", vl = f(xq, yl); vr = f(xq, yr); ve = f(xq, ye));
			double f02 = fv[i][j + 2] * fs, f12 = fv[i + 1][j + 2] * fs;
			double sc2 = std::max(sc, std::max(std::fabs(f02), std::fabs(f12)));
			double slope = (std::fabs(f01 - f00) + std::fabs(f11 - f10)) / (Y[j + 1] - Y[j]) + (std::fabs(f02 - f01) + std::fabs(f12 - f11)) / (Y[j + 2] - Y[j + 1]);
			double tol = 32 * EPS * sc2 + 4 * slope * ulp_of(ye);
			VCLOSE(c, "edge_continuity_y", vl, vr, tol, "jump across the cell edge y=" << ye << " at x=" << xq);
			VCLOSE(c, "edge_value_y", ve, vr, tol, "value on the cell edge y=" << ye << " at x=" << xq);
		}
		// a grid corner approached from its four cells
		if(i + 2 < nx && j + 2 < ny && k % 4 == 0)
		{
			double xe = X[i + 1], ye = Y[j + 1], vc = 0, v4[4] = {0, 0, 0, 0};
			VMUST_RETURN("Interpolate around a grid corner", vc = f(xe, ye); v4[0] = f(std::nextafter(xe, -INFINITY), std::nextafter(ye, -INFINITY)); v4[1] = f(std::nextafter(xe, INFINITY), std::nextafter(ye, -INFINITY));
						 v4[2] = f(std::nextafter(xe, -INFINITY), std::nextafter(ye, INFINITY)); v4[3] = f(std::nextafter(xe, INFINITY), std::nextafter(ye, INFINITY)));
			double scc = 0, sl = 0;
			for(int di = 0; di <= 2; di++)
				for(int dj = 0; dj <= 2; dj++)
					scc = std::max(scc, std::fabs(fv[i + di][j + dj] * fs));
			for(int di = 0; di <= 1; di++)
				for(int dj = 0; dj <= 2; dj++)
					sl = std::max(sl, std::fabs(fv[i + di + 1][j + dj] - fv[i + di][j + dj]) * fs / (X[i + di + 1] - X[i + di]) * ulp_of(xe));
			for(int di = 0; di <= 2; di++)
				for(int dj = 0; dj <= 1; dj++)
					sl = std::max(sl, std::fabs(fv[i + di][j + dj + 1] - fv[i + di][j + dj]) * fs / (Y[j + dj + 1] - Y[j + dj]) * ulp_of(ye));
			for(int q = 0; q < 4; q++)
				VCLOSE(c, "corner_continuity", v4[q], vc, 32 * EPS * scc + 8 * sl, "value next to the grid corner (" << xe << "," << ye << ") in quadrant " << q << " vs the value at the corner");
		}
	}
}
