// C08 Interpolation integrals and extrema are those of the interpolated curve
#include "../engine/harness.hpp"
#include "../engine/interp_common.hpp"

#include "libphysica/Numerics.hpp"

using namespace vf;
using libphysica::Interpolation;
using libphysica::Interpolation_2D;
const char* const vf::kPropertyId = "C08";

namespace
{
// a prefactor history: sequence of Set_Prefactor / Multiply applied to the object and mirrored in the model value P
struct Pref
{
	double P = 1.0;
	bool negative_seen = false;
	int ops = 0;
};
double gen_factor(Src& s)
{
	switch(s.pick({2, 2, 1, 1}))
	{
		case 0: return s.sign() * std::pow(10.0, s.uniform(-8, 8));
		case 1: return s.sign() * std::ldexp(1.0, (int) s.range(-20, 20));
		case 2: return -1.0;
		default: return (double) s.range(-9, 9) == 0 ? 2.0 : (double) s.range(-9, 9);
	}
}
template <class Obj>
void apply_prefactor_ops(Ctx& c, Obj& f, Pref& p, int maxops)
{
	int n = (int) c.s.range(0, maxops);
	for(int k = 0; k < n; k++)
	{
		double fac = gen_factor(c.s);
		if(fac == 0)
			fac = 2;
		if(c.s.coin())
		{
			f.Set_Prefactor(fac);
			p.P = fac;
			VLOG(c, "  Set_Prefactor(" << fac << ")");
		}
		else
		{
			// keep the accumulated factor in a sane range
			if(std::fabs(p.P * fac) > 1e60 || std::fabs(p.P * fac) < 1e-60)
				fac = fac > 0 ? 1.0 : -1.0;
			f.Multiply(fac);
			p.P *= fac;
			VLOG(c, "  Multiply(" << fac << ")");
		}
		p.ops++;
	}
	if(p.P < 0)
		p.negative_seen = true;
}
// limit inside the domain (or the extrapolation zone) with a bias to knots and their neighbours
double gen_limit(Src& s, const std::vector<double>& X, bool allow_zone)
{
	int N = (int) X.size();
	int i = (int) s.range(0, N - 2);
	double h = X[i + 1] - X[i];
	switch(s.pick({4, 2, 1, allow_zone ? 1.0 : 0.0}))
	{
		case 0: return std::min(X[i] + h * s.unit(), X[i + 1]);
		case 1: return X[(int) s.range(0, N - 1)];
		case 2:
		{
			int k = (int) s.range(0, N - 1);
			double v = std::nextafter(X[k], s.coin() ? INFINITY : -INFINITY);
			return std::min(std::max(v, X[0]), X[N - 1]);
		}
		default:
			if(s.coin())
				return X[0] - 0.0099 * (X[1] - X[0]) * s.unit();
			return X[N - 1] + 0.0099 * (X[N - 1] - X[N - 2]) * s.unit();
	}
}
int seg_of(const std::vector<double>& X, double x)
{
	int N = (int) X.size();
	if(x <= X[0])
		return 0;
	if(x >= X[N - 1])
		return N - 2;
	int j = (int) (std::upper_bound(X.begin(), X.end(), x) - X.begin()) - 1;
	return std::min(std::max(j, 0), N - 2);
}
// rounding scale of Integrate over [a,b]: the antiderivative contains d_j*x with the absolute abscissa, so each segment
// contributes eps*max|y|*(|x|+h)
double integral_scale(const std::vector<double>& X, const std::vector<double>& Y, double a, double b)
{
	if(a > b)
		std::swap(a, b);
	int i1 = seg_of(X, a), i2 = seg_of(X, b);
	double sc = 0;
	for(int j = i1; j <= i2; j++)
	{
		double ym = std::max(std::fabs(Y[j]), std::fabs(Y[j + 1]));
		double xm = std::max(std::max(std::fabs(X[j]), std::fabs(X[j + 1])), std::max(std::fabs(a), std::fabs(b)));
		sc += ym * (xm + (X[j + 1] - X[j]));
	}
	return sc;
}
}	// namespace

VCLAUSE(integrate, 700, 6000, 150000, "limits span at least two knots, are reversed or reach into the extrapolation zone, or the prefactor changed between queries")
{
	Table t = gen_table(c.s, c.s.chance(0.05) ? 2 : 3, 80);
	int N	= (int) t.x.size();
	VLOG(c, show_table(t));
	Interpolation f, unit;
	VMUST_RETURN("Interpolation constructor", f = Interpolation(t.x, t.y, t.xdim, t.fdim); unit = Interpolation(t.x, t.y, t.xdim, t.fdim));
	std::vector<double> X = t.X(), Y = t.Y();
	Pref pf;
	apply_prefactor_ops(c, f, pf, 2);
	int nq = (int) c.s.range(1, 6);
	for(int q = 0; q < nq; q++)
	{
		if(q > 0 && c.s.chance(0.3))
		{
			apply_prefactor_ops(c, f, pf, 2);
			c.nt();
		}
		double P = pf.P;
		double a = gen_limit(c.s, X, true), b = gen_limit(c.s, X, true);
		bool zone = (a < X[0] || a > X[N - 1] || b < X[0] || b > X[N - 1]);
		int spanned = std::abs(seg_of(X, a) - seg_of(X, b));
		if(spanned >= 2 || a > b || zone)
			c.nt();
		c.cls(a > b ? "reversed" : "ordered");
		c.cls(spanned == 0 ? "one_interval" : "many_intervals");
		if(zone)
			c.cls("extrapolation_zone");
		VLOG(c, "  Integrate(" << a << "," << b << ") with prefactor " << P);
		double I = 0, Ir = 0, Iu = 0;
		VMUST_RETURN("Integrate", I = f.Integrate(a, b); Ir = f.Integrate(b, a); Iu = unit.Integrate(a, b));
		VCHECK(same_bits(Ir, -I) || (I == 0 && Ir == 0), "Integrate(b,a)=" << Ir << " is not the exact negative of Integrate(a,b)=" << I);
		double sc  = integral_scale(X, Y, a, b);
		double tol = 64 * EPS * sc;
		// scales with the prefactor history exactly as Interpolate does
		VCLOSE(c, "prefactor_scaling", I, P * Iu, std::fabs(P) * tol, "Integrate with prefactor " << P << " vs prefactor*Integrate of an object without prefactor");
		// independent quadrature of the returned curve: 3-point Gauss-Legendre per sub-interval in long double (exact for cubics)
		{
			double lo = std::min(a, b), hi = std::max(a, b);
			int i1 = seg_of(X, lo), i2 = seg_of(X, hi);
			long double sum = 0, hsum = 0;
			static const long double gx[3] = {-0.774596669241483377035853079956L, 0.0L, 0.774596669241483377035853079956L};
			static const long double gw[3] = {0.555555555555555555555555555556L, 0.888888888888888888888888888889L, 0.555555555555555555555555555556L};
			bool too_many = (i2 - i1) > 40;
			for(int j = i1; j <= i2 && !too_many; j++)
			{
				long double l = j == i1 ? (long double) lo : (long double) X[j], r = j == i2 ? (long double) hi : (long double) X[j + 1];
				if(!(r > l))
					continue;
				long double mid = (l + r) / 2, half = (r - l) / 2, ssum = 0;
				for(int k = 0; k < 3; k++)
				{
					double xq = (double) (mid + gx[k] * half);
					// stay inside this sub-interval after rounding
					xq = std::min(std::max(xq, (double) l), (double) r);
					double v = 0;
					VMUST_RETURN("Interpolate", v = unit.Interpolate(xq));
					ssum += gw[k] * v;
				}
				sum += ssum * half;
				hsum += (r - l) * std::max(std::fabs(Y[j]), std::fabs(Y[j + 1]));
			}
			if(!too_many)
			{
				double sgn = a <= b ? 1.0 : -1.0;
				// Gauss nodes are rounded to double: the quadrature of a cubic then errs by <= |f'|*ulp(x)*h per node
				double node = 0;
				for(int j = i1; j <= i2; j++)
					node += 6 * std::fabs(Y[j + 1] - Y[j]) / (X[j + 1] - X[j]) * ulp_of(std::max(std::fabs(X[j]), std::fabs(X[j + 1]))) * (X[j + 1] - X[j]);
				VCLOSE(c, "integral_vs_quadrature", Iu, sgn * (double) sum, tol + 256 * EPS * (double) hsum + node, "Integrate(" << a << "," << b << ") vs Gauss quadrature of Interpolate");
			}
		}
		// bounded by the curve's minimum and maximum times the interval length (pieces are monotone: extremes at ends and knots)
		if(!zone)
		{
			double lo = std::min(a, b), hi = std::max(a, b);
			double m = 1e308, M = -1e308;
			auto upd = [&](double xq) {
				double v = 0;
				VMUST_RETURN("Interpolate", v = unit.Interpolate(xq));
				m = std::min(m, v);
				M = std::max(M, v);
			};
			upd(lo);
			upd(hi);
			for(int k = 0; k < N; k++)
				if(X[k] >= lo && X[k] <= hi)
				{
					m = std::min(m, Y[k]);
					M = std::max(M, Y[k]);
				}
			double L  = hi - lo;
			double sg = a <= b ? 1.0 : -1.0;
			VCHECK(sg * Iu >= m * L - tol - 128 * EPS * std::fabs(m) * L && sg * Iu <= M * L + tol + 128 * EPS * std::fabs(M) * L,
				   "Integrate(" << a << "," << b << ")=" << Iu << " outside [min,max]*length = [" << m * L << "," << M * L << "]");
		}
		// additivity with a third point
		{
			double m3 = gen_limit(c.s, X, false);
			double I1 = 0, I2 = 0;
			VMUST_RETURN("Integrate (additivity)", I1 = f.Integrate(a, m3); I2 = f.Integrate(m3, b));
			double sc3 = integral_scale(X, Y, a, m3) + integral_scale(X, Y, m3, b) + sc;
			VCLOSE(c, "additivity", I1 + I2, I, 64 * EPS * sc3 * std::fabs(P), "Integrate(a,m)+Integrate(m,b) vs Integrate(a,b), m=" << m3);
		}
		// derivative with respect to the upper limit is Interpolate: symmetric difference inside one interval is exact for a quartic
		// antiderivative up to the known term f''*delta^2/6
		{
			int j = seg_of(X, b);
			double h = X[j + 1] - X[j];
			double bm = X[j] + h * (0.3 + 0.4 * c.s.unit());
			double dl = h * 0.125;
			double xm = std::max(std::fabs(X[j]), std::fabs(X[j + 1]));
			if(dl > 1e3 * ulp_of(xm))
			{
				double Ip = 0, Im = 0, fv = 0, f2 = 0;
				VMUST_RETURN("Integrate/Interpolate/Derivative", Ip = unit.Integrate(a, bm + dl); Im = unit.Integrate(a, bm - dl); fv = unit.Interpolate(bm); f2 = unit.Derivative(bm, 2));
				double dtrue = (bm + dl) - (bm - dl);
				double expect = fv + f2 * (dtrue / 2) * (dtrue / 2) / 6.0;
				double ym	  = std::max(std::fabs(Y[j]), std::fabs(Y[j + 1]));
				double sca	  = integral_scale(X, Y, a, bm + dl);
				double tol_d  = (256 * EPS * sca) / dtrue + 256 * EPS * ym + 64 * ym * ulp_of(xm) / h;
				VCLOSE(c, "d_dx2_integral", (Ip - Im) / dtrue, expect, tol_d, "d/dx2 Integrate(a,x2) at x2=" << bm << " vs Interpolate");
			}
		}
	}
}

VCLAUSE(extrema, 700, 6000, 150000, "the range spans at least two knots and the extreme knot is the last one inside, or the prefactor is negative")
{
	Table t = gen_table(c.s, c.s.chance(0.05) ? 2 : 3, 80);
	int N	= (int) t.x.size();
	VLOG(c, show_table(t));
	Interpolation f;
	VMUST_RETURN("Interpolation constructor", f = Interpolation(t.x, t.y, t.xdim, t.fdim));
	std::vector<double> X = t.X(), Y = t.Y();
	Pref pf;
	apply_prefactor_ops(c, f, pf, 3);
	int nq = (int) c.s.range(1, 6);
	for(int q = 0; q < nq; q++)
	{
		if(q > 0 && c.s.chance(0.3))
			apply_prefactor_ops(c, f, pf, 2);
		double P = pf.P;
		if(P < 0)
			c.nt();
		double a = gen_limit(c.s, X, true), b = gen_limit(c.s, X, true);
		if(c.s.chance(0.5))
		{	// a short range around a knot: exactly one or two knots inside
			int k = (int) c.s.range(1, N - 2);
			a	  = X[k] - (X[k] - X[k - 1]) * c.s.unit() * 0.9;
			int k2 = std::min(k + (int) c.s.range(0, 1), N - 2);
			b	   = X[k2] + (X[k2 + 1] - X[k2]) * c.s.unit() * 0.9;
		}
		if(a > b)
			std::swap(a, b);
		VLOG(c, "  Local extrema on [" << a << "," << b << "] with prefactor " << P);
		double lmin = 0, lmax = 0, gmin = 0, gmax = 0, fa = 0, fb = 0;
		VMUST_RETURN("Local/Global extrema", lmin = f.Local_Minimum(a, b); lmax = f.Local_Maximum(a, b); gmin = f.Global_Minimum(); gmax = f.Global_Maximum(); fa = f.Interpolate(a); fb = f.Interpolate(b));
		// oracle: extremes over {f(a), f(b), knots inside [a,b]} (pieces are monotone)
		double m = std::min(fa, fb), M = std::max(fa, fb), ysc = std::max(std::fabs(fa), std::fabs(fb)) / std::max(std::fabs(P), 1e-300);
		// end values exactly at a knot may be computed from either neighbouring interval: include their ordinates in the rounding scale
		for(double e : {a, b})
		{
			int j = seg_of(X, e);
			for(int k = std::max(j - 1, 0); k <= std::min(j + 2, N - 1); k++)
				ysc = std::max(ysc, std::fabs(Y[k]));
		}
		int inside = 0, arg_min = -1, last_inside = -1;
		for(int k = 0; k < N; k++)
			if(X[k] >= a && X[k] <= b)
			{
				double v = P * Y[k];
				if(v < m)
				{
					m		= v;
					arg_min = k;
				}
				M = std::max(M, v);
				inside++;
				last_inside = k;
				ysc			= std::max(ysc, std::fabs(Y[k]));
			}
		if(inside >= 2 && (arg_min == last_inside || P * Y[last_inside] == M))
			c.nt();
		c.cls(inside == 0 ? "no_knot_inside" : (inside == 1 ? "one_knot_inside" : "many_knots_inside"));
		double tol = 128 * EPS * ysc * std::fabs(P);
		VCLOSE(c, "local_minimum", lmin, m, tol, "Local_Minimum(" << a << "," << b << ") vs min over ends and enclosed knots (" << inside << " knots inside)");
		VCLOSE(c, "local_maximum", lmax, M, tol, "Local_Maximum(" << a << "," << b << ") vs max over ends and enclosed knots (" << inside << " knots inside)");
		// global extrema = extremes of prefactor*table
		double gm = 1e308, gM = -1e308, gsc = 0;
		for(int k = 0; k < N; k++)
		{
			gm	= std::min(gm, P * Y[k]);
			gM	= std::max(gM, P * Y[k]);
			gsc = std::max(gsc, std::fabs(Y[k]));
		}
		VCLOSE(c, "global_minimum", gmin, gm, 4 * EPS * std::fabs(gm), "Global_Minimum vs min of prefactor*table");
		VCLOSE(c, "global_maximum", gmax, gM, 4 * EPS * std::fabs(gM), "Global_Maximum vs max of prefactor*table");
		// no evaluation inside [a,b] (within the tabulated domain) falls outside the local extrema, none anywhere outside the global ones
		double lo = std::max(a, X[0]), hi = std::min(b, X[N - 1]);
		for(int k = 0; k < 12 && hi >= lo; k++)
		{
			double xq = k == 0 ? lo : (k == 1 ? hi : lo + (hi - lo) * c.s.unit());
			xq		  = std::min(std::max(xq, lo), hi);
			double v  = 0;
			VMUST_RETURN("Interpolate", v = f.Interpolate(xq));
			int j	  = seg_of(X, xq);
			double sl = std::max(std::fabs(Y[j]), std::fabs(Y[j + 1]));
			if(j > 0)
				sl = std::max(sl, std::fabs(Y[j - 1]));
			double tl = 256 * EPS * sl * std::fabs(P);
			VCHECK(v >= lmin - tl && v <= lmax + tl, "f(" << xq << ")=" << v << " lies outside [Local_Minimum,Local_Maximum]=[" << lmin << "," << lmax << "] on [" << a << "," << b << "]");
			VCHECK(v >= gmin - tl && v <= gmax + tl, "f(" << xq << ")=" << v << " lies outside [Global_Minimum,Global_Maximum]=[" << gmin << "," << gmax << "]");
		}
	}
}

VCLAUSE(extrema_2d, 500, 4000, 100000, "the prefactor is negative or was changed by a sequence of Set_Prefactor/Multiply calls")
{
	Src& s = c.s;
	int nx = (int) s.sized(2, 16), ny = (int) s.sized(2, 16);
	std::vector<double> x = gen_abscissae(s, nx, 4.0), y = gen_abscissae(s, ny, 4.0);
	std::vector<std::vector<double>> fv(nx, std::vector<double>(ny));
	double mag = std::pow(10.0, s.uniform(-10, 10));
	// sign structure of the table: straddling zero, all positive (the physical case), all negative - an accumulator seeded with zero or a
	// comparison of magnitudes passes the first kind only
	int signs = s.pick({2, 2, 1});
	for(auto& r : fv)
		for(auto& v : r)
		{
			v = s.chance(0.05) ? 0.0 : mag * s.uniform(-1, 1) * (s.chance(0.1) ? 100 : 1);
			if(signs == 1)
				v = mag * (0.5 + std::fabs(v) / mag);
			else if(signs == 2)
				v = -mag * (0.5 + std::fabs(v) / mag);
		}
	c.cls(signs == 0 ? "table_straddles_zero" : (signs == 1 ? "table_all_positive" : "table_all_negative"));
	// place the extreme entries anywhere, including the last row/column
	if(signs == 0)
	{
		fv[(size_t) s.range(0, nx - 1)][(size_t) s.range(0, ny - 1)] = -mag * 1000 * s.unit();
		fv[(size_t) s.range(0, nx - 1)][(size_t) s.range(0, ny - 1)] = mag * 1000 * s.unit();
	}
	else
	{
		double sg = signs == 1 ? 1.0 : -1.0;
		fv[(size_t) s.range(0, nx - 1)][(size_t) s.range(0, ny - 1)] = sg * mag * 1e-3 * (1 + s.unit());
		fv[(size_t) s.range(0, nx - 1)][(size_t) s.range(0, ny - 1)] = sg * mag * 1000 * (1 + s.unit());
	}
	VLOG(c, "grid " << nx << "x" << ny << " x=" << show(x) << " y=" << show(y) << " f=" << show(fv));
	Interpolation_2D f;
	// either constructor: (x, y, f) lists or the three-column table (x runs slowest)
	if(s.coin())
		VMUST_RETURN("Interpolation_2D constructor", f = Interpolation_2D(x, y, fv));
	else
	{
		std::vector<std::vector<double>> tab;
		for(int i = 0; i < nx; i++)
			for(int j = 0; j < ny; j++)
				tab.push_back({x[(size_t) i], y[(size_t) j], fv[(size_t) i][(size_t) j]});
		c.cls("three_column_table_constructor");
		VMUST_RETURN("Interpolation_2D table constructor", f = Interpolation_2D(tab));
	}
	Pref pf;
	apply_prefactor_ops(c, f, pf, 3);
	double P = pf.P;
	if(P < 0 || pf.ops >= 2)
		c.nt();
	double gm = 1e308, gM = -1e308;
	for(auto& r : fv)
		for(auto& v : r)
		{
			gm = std::min(gm, P * v);
			gM = std::max(gM, P * v);
		}
	double gmin = 0, gmax = 0;
	VMUST_RETURN("Interpolation_2D global extrema", gmin = f.Global_Minimum(); gmax = f.Global_Maximum());
	VCLOSE(c, "global_minimum_2d", gmin, gm, 4 * EPS * std::fabs(gm), "2D Global_Minimum vs min of prefactor*table (prefactor " << P << ")");
	VCLOSE(c, "global_maximum_2d", gmax, gM, 4 * EPS * std::fabs(gM), "2D Global_Maximum vs max of prefactor*table (prefactor " << P << ")");
	for(int k = 0; k < 12; k++)
	{
		double xq = x[0] + (x[nx - 1] - x[0]) * s.unit(), yq = y[0] + (y[ny - 1] - y[0]) * s.unit();
		if(k == 0)
		{
			xq = x[nx - 1];
			yq = y[ny - 1];
		}
		double v = 0;
		VMUST_RETURN("Interpolation_2D::Interpolate", v = f(xq, yq));
		double tl = 64 * EPS * std::max(std::fabs(gm), std::fabs(gM));
		VCHECK(v >= gmin - tl && v <= gmax + tl, "f(" << xq << "," << yq << ")=" << v << " outside the global extrema [" << gmin << "," << gmax << "]");
		// prefactor scales evaluations exactly as stated: compare with a fresh object times P
		Interpolation_2D g(x, y, fv);
		double v1 = g(xq, yq);
		VCLOSE(c, "prefactor_scaling_2d", v, P * v1, 4 * EPS * std::fabs(P * v1), "2D evaluation with prefactor " << P << " vs prefactor*evaluation of a fresh object");
	}
}
