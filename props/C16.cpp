// C16 Rotations and spherical coordinates are geometrically correct for every axis
#include "../engine/harness.hpp"

#include "libphysica/Linear_Algebra.hpp"

using namespace vf;
using libphysica::Matrix;
using libphysica::Vector;
const char* const vf::kPropertyId = "C16";

namespace
{
struct L3
{
	long double x, y, z;
};
L3 cross(L3 a, L3 b) { return {a.y * b.z - a.z * b.y, a.z * b.x - a.x * b.z, a.x * b.y - a.y * b.x}; }
long double dot(L3 a, L3 b) { return a.x * b.x + a.y * b.y + a.z * b.z; }
long double norm(L3 a) { return sqrtl(dot(a, a)); }

double gen_angle(Src& s)
{
	switch(s.pick({4, 2, 2, 1}))
	{
		case 0: return s.uniform(-4 * M_PI, 4 * M_PI);
		case 1: return (double) s.range(-8, 8) * (M_PI / 2);	  // multiples of pi/2 (as doubles)
		case 2: return (double) s.range(-4, 4) * M_PI + s.sign() * std::pow(10.0, s.uniform(-12, -2));	// next to half/full turns
		default: return s.sign() * std::pow(10.0, s.uniform(-12, -1));	 // tiny angles
	}
}
// axis of any length: random, coordinate directions, near +-z, exactly +-z
std::vector<double> gen_axis(Src& s, std::string& kind)
{
	double len = std::pow(10.0, s.uniform(-6, 6));
	double x, y, z;
	switch(s.pick({4, 2, 3, 2}))
	{
		case 0:
		{
			double ct = s.uniform(-1, 1), ph = s.uniform(0, 2 * M_PI), st = std::sqrt(1 - ct * ct);
			x	 = st * std::cos(ph);
			y	 = st * std::sin(ph);
			z	 = ct;
			kind = "random_axis";
			break;
		}
		case 1:
		{
			int k = (int) s.range(0, 5);
			x	  = k == 0 ? 1 : (k == 1 ? -1 : 0);
			y	  = k == 2 ? 1 : (k == 3 ? -1 : 0);
			z	  = k == 4 ? 1 : (k == 5 ? -1 : 0);
			kind  = (k >= 4) ? (k == 4 ? "axis_plus_z" : "axis_minus_z") : "coordinate_axis";
			break;
		}
		case 2:
		{
			double d = std::pow(10.0, s.uniform(-16, -1)), ph = s.uniform(0, 2 * M_PI);
			x	 = d * std::cos(ph);
			y	 = s.chance(0.2) ? 0.0 : d * std::sin(ph);
			z	 = s.sign();
			kind = "near_z_axis";
			break;
		}
		default:
			x	 = 0;
			y	 = 0;
			z	 = s.sign();
			kind = z > 0 ? "axis_plus_z" : "axis_minus_z";
			break;
	}
	return {x * len, y * len, z * len};
}
}	// namespace

VCLAUSE(rotation_3d, 40, 20000, 500000, "the axis is not a coordinate direction, or the angle is within 1e-2 of a multiple of pi")
{
	Src& s = c.s;
	std::string kind;
	std::vector<double> ax = gen_axis(s, kind);
	double al = gen_angle(s), be = gen_angle(s);
	c.cls(kind.c_str());
	double frac = std::fabs(std::remainder(al, M_PI));
	if(kind == "random_axis" || kind == "near_z_axis" || frac < 1e-2)
		c.nt();
	if(frac < 1e-2)
		c.cls("angle_near_multiple_of_pi");
	VLOG(c, "Rotation_Matrix(" << al << ",3," << show(ax) << ") and angle " << be);
	Matrix R, Rb, Rab;
	VMUST_RETURN("Rotation_Matrix", R = libphysica::Rotation_Matrix(al, 3, Vector(ax)); Rb = libphysica::Rotation_Matrix(be, 3, Vector(ax)); Rab = libphysica::Rotation_Matrix(al + be, 3, Vector(ax)));
	VCHECK(R.Rows() == 3 && R.Columns() == 3, "shape");
	L3 n = {ax[0], ax[1], ax[2]};
	long double nl = norm(n);
	n = {n.x / nl, n.y / nl, n.z / nl};
	long double ca = cosl((long double) al), sa = sinl((long double) al);
	// Rodrigues reference in long double
	long double Rr[3][3] = {{ca + n.x * n.x * (1 - ca), n.x * n.y * (1 - ca) - n.z * sa, n.x * n.z * (1 - ca) + n.y * sa},
							{n.y * n.x * (1 - ca) + n.z * sa, ca + n.y * n.y * (1 - ca), n.y * n.z * (1 - ca) - n.x * sa},
							{n.z * n.x * (1 - ca) - n.y * sa, n.z * n.y * (1 - ca) + n.x * sa, ca + n.z * n.z * (1 - ca)}};
	for(int i = 0; i < 3; i++)
		for(int j = 0; j < 3; j++)
		{
			VCHECK(std::isfinite(R[i][j]), "entry (" << i << "," << j << ") = " << R[i][j]);
			VCLOSE(c, "rodrigues_reference", R[i][j], (double) Rr[i][j], 32 * EPS, "entry (" << i << "," << j << ") vs the Rodrigues formula in long double");
		}
	// orthogonality, determinant, axis fixed, composition (stated separately from the reference formula)
	long double det = 0;
	for(int i = 0; i < 3; i++)
	{
		for(int j = 0; j < 3; j++)
		{
			long double rr = 0;
			for(int k = 0; k < 3; k++)
				rr += (long double) R[i][k] * R[j][k];
			VCLOSE(c, "orthogonality", (double) rr, i == j ? 1.0 : 0.0, 32 * EPS, "(R R^T)(" << i << "," << j << ")");
		}
	}
	det = (long double) R[0][0] * ((long double) R[1][1] * R[2][2] - (long double) R[1][2] * R[2][1]) - (long double) R[0][1] * ((long double) R[1][0] * R[2][2] - (long double) R[1][2] * R[2][0])
		  + (long double) R[0][2] * ((long double) R[1][0] * R[2][1] - (long double) R[1][1] * R[2][0]);
	VCLOSE(c, "determinant", (double) det, 1.0, 32 * EPS, "det R");
	L3 rn = {R[0][0] * n.x + R[0][1] * n.y + R[0][2] * n.z, R[1][0] * n.x + R[1][1] * n.y + R[1][2] * n.z, R[2][0] * n.x + R[2][1] * n.y + R[2][2] * n.z};
	VCLOSE(c, "axis_fixed", (double) norm({rn.x - n.x, rn.y - n.y, rn.z - n.z}), 0.0, 32 * EPS, "|R n - n|");
	// a vector perpendicular to the axis turns by alpha in the right-handed sense: R v = cos(a) v + sin(a) n x v
	L3 t  = fabsl(n.z) < 0.9L ? L3 {0, 0, 1} : L3 {1, 0, 0};
	L3 v  = cross(n, t);
	long double vl = norm(v);
	v	  = {v.x / vl, v.y / vl, v.z / vl};
	L3 nv = cross(n, v);
	L3 rv = {R[0][0] * v.x + R[0][1] * v.y + R[0][2] * v.z, R[1][0] * v.x + R[1][1] * v.y + R[1][2] * v.z, R[2][0] * v.x + R[2][1] * v.y + R[2][2] * v.z};
	VCLOSE(c, "perpendicular_turn_cos", (double) dot(rv, v), (double) ca, 32 * EPS, "cos of the angle between v and R v for v perpendicular to the axis");
	VCLOSE(c, "perpendicular_turn_sin", (double) dot(cross(v, rv), n), (double) sa, 32 * EPS, "(v x R v).n must equal sin(alpha): right-handed sense");
	// ... and so does the second perpendicular direction n x v (together with n a full right-handed basis): R (n x v) = cos(a) (n x v) - sin(a) v
	L3 rnv = {R[0][0] * nv.x + R[0][1] * nv.y + R[0][2] * nv.z, R[1][0] * nv.x + R[1][1] * nv.y + R[1][2] * nv.z, R[2][0] * nv.x + R[2][1] * nv.y + R[2][2] * nv.z};
	VCLOSE(c, "second_perpendicular_cos", (double) dot(rnv, nv), (double) ca, 32 * EPS, "cos of the angle between n x v and R (n x v)");
	VCLOSE(c, "second_perpendicular_sin", (double) dot(rnv, v), (double) -sa, 32 * EPS, "R (n x v) . v must equal -sin(alpha)");
	// the default axis of the three-dimensional overload is z
	if(c.s.chance(0.1))
	{
		Matrix Rd, Rz;
		VMUST_RETURN("Rotation_Matrix with the default axis", Rd = libphysica::Rotation_Matrix(al, 3); Rz = libphysica::Rotation_Matrix(al, 3, Vector({0, 0, 1})));
		c.cls("default_axis");
		for(int i = 0; i < 3; i++)
			for(int j = 0; j < 3; j++)
				VCLOSE(c, "default_axis_is_z", Rd[i][j], Rz[i][j], 4 * EPS, "Rotation_Matrix(alpha,3) vs Rotation_Matrix(alpha,3,z) at (" << i << "," << j << ")");
		VCLOSE(c, "default_axis_rotates_about_z", Rd[0][1], (double) -sa, 4 * EPS, "entry (0,1) of the rotation about the default axis must be -sin(alpha)");
	}
	for(int i = 0; i < 3; i++)
		for(int j = 0; j < 3; j++)
		{
			long double p = 0;
			for(int k = 0; k < 3; k++)
				p += (long double) R[i][k] * Rb[k][j];
			// alpha+beta is rounded to double before the call: allow |d(alpha+beta)| on top of rounding
			double tol = 64 * EPS + 2 * EPS * std::fabs(al + be);
			VCLOSE(c, "composition", (double) p, Rab[i][j], tol, "(R(a)R(b))(" << i << "," << j << ") vs R(a+b)");
		}
}

VCLAUSE(rotation_2d, 10, 10000, 200000, "the angle is outside [-pi,pi] or within 1e-2 of a multiple of pi/2")
{
	double al = gen_angle(c.s), be = gen_angle(c.s);
	if(std::fabs(al) > M_PI || std::fabs(std::remainder(al, M_PI / 2)) < 1e-2)
		c.nt();
	VLOG(c, "Rotation_Matrix(" << al << ",2) and angle " << be);
	Matrix R, Rb, Rab;
	VMUST_RETURN("Rotation_Matrix 2D", R = libphysica::Rotation_Matrix(al, 2); Rb = libphysica::Rotation_Matrix(be, 2); Rab = libphysica::Rotation_Matrix(al + be, 2));
	VCHECK(R.Rows() == 2 && R.Columns() == 2, "shape");
	long double ca = cosl((long double) al), sa = sinl((long double) al);
	VCLOSE(c, "r00", R[0][0], (double) ca, 4 * EPS, "R00");
	VCLOSE(c, "r01", R[0][1], (double) -sa, 4 * EPS, "R01: counter-clockwise (right-handed) rotation");
	VCLOSE(c, "r10", R[1][0], (double) sa, 4 * EPS, "R10");
	VCLOSE(c, "r11", R[1][1], (double) ca, 4 * EPS, "R11");
	long double det = (long double) R[0][0] * R[1][1] - (long double) R[0][1] * R[1][0];
	VCLOSE(c, "determinant_2d", (double) det, 1.0, 8 * EPS, "det R");
	for(int i = 0; i < 2; i++)
		for(int j = 0; j < 2; j++)
		{
			long double rr = (long double) R[i][0] * R[j][0] + (long double) R[i][1] * R[j][1], p = (long double) R[i][0] * Rb[0][j] + (long double) R[i][1] * Rb[1][j];
			VCLOSE(c, "orthogonality_2d", (double) rr, i == j ? 1.0 : 0.0, 8 * EPS, "(R R^T)(" << i << "," << j << ")");
			VCLOSE(c, "composition_2d", (double) p, Rab[i][j], 16 * EPS + 2 * EPS * std::fabs(al + be), "R(a)R(b) vs R(a+b)");
		}
}

VCLAUSE(spherical, 40, 20000, 500000, "the axis is not a coordinate direction, or is (anti)parallel to z or within 1e-6 of it")
{
	Src& s = c.s;
	std::string kind;
	std::vector<double> ax = gen_axis(s, kind);
	// all r > 0: mostly moderate, sometimes near the ends of the double range
	double r  = s.chance(0.15) ? std::pow(10.0, s.sign() * s.uniform(100, 300)) : std::pow(10.0, s.uniform(-3, 3));
	double th = s.pick({5, 1, 1, 1}) == 0 ? s.uniform(0, M_PI) : (s.coin() ? (s.pick({1, 1, 1}) == 0 ? 0.0 : (s.coin() ? M_PI : M_PI / 2)) : (s.coin() ? std::pow(10.0, s.uniform(-10, -1)) : M_PI - std::pow(10.0, s.uniform(-10, -1))));
	double ph = s.pick({5, 1, 1}) == 0 ? s.uniform(0, 2 * M_PI) : (s.coin() ? (double) s.range(0, 3) * (M_PI / 2) : 2 * M_PI * (1 - std::pow(10.0, s.uniform(-15, -3))));
	double near = std::hypot(ax[0], ax[1]) / std::sqrt(ax[0] * ax[0] + ax[1] * ax[1] + ax[2] * ax[2]);
	c.cls(kind.c_str());
	if(kind != "coordinate_axis" || near < 1e-6)
		c.nt();
	VLOG(c, "Spherical_Coordinates(" << r << "," << th << "," << ph << "," << show(ax) << ")");
	Vector v, v2, plain;
	double dph = s.uniform(0.01, 1.5);
	VMUST_RETURN("Spherical_Coordinates", v = libphysica::Spherical_Coordinates(r, th, ph, Vector(ax)); v2 = libphysica::Spherical_Coordinates(r, th, ph + dph, Vector(ax)); plain = libphysica::Spherical_Coordinates(r, th, ph));
	VCHECK(v.Size() == 3 && plain.Size() == 3, "size");
	for(int i = 0; i < 3; i++)
		VCHECK(std::isfinite(v[i]), "component " << i << " = " << v[i]);
	// in units of r (r^2 leaves the double range at both ends)
	L3 a = {ax[0], ax[1], ax[2]}, w = {(long double) v[0] / r, (long double) v[1] / r, (long double) v[2] / r}, w2 = {(long double) v2[0] / r, (long double) v2[1] / r, (long double) v2[2] / r};
	long double al = norm(a);
	a = {a.x / al, a.y / al, a.z / al};
	VCLOSE(c, "norm", (double) norm(w), 1.0, 16 * EPS, "|v|/r must be 1");
	// polar angle from the axis: atan2(|v x a|, v.a)
	long double pol = atan2l(norm(cross(w, a)), dot(w, a));
	VCLOSE(c, "polar_angle", (double) pol, th, 64 * EPS, "polar angle of v from the axis (axis kind " << kind << ")");
	// increasing phi moves v around the axis in the right-handed sense: (v(phi) x v(phi+d)).a = r^2 sin^2(theta) sin(d)
	// (tolerance: each vector carries eps*r of rounding, which enters the triple product multiplied by the perpendicular part r sin(theta))
	// (w x w2).a evaluated as (w2 - w).(a x w): the direct form cancels catastrophically when v is nearly parallel to the axis
	L3 dw = {w2.x - w.x, w2.y - w.y, w2.z - w.z};
	long double hand = dot(dw, cross(a, w)), sth = fabsl(sinl((long double) th)), expect = sth * sth * sinl((long double) dph);
	VCLOSE(c, "right_handed_azimuth", (double) hand, (double) expect, 256 * EPS * (double) sth + 64 * EPS * EPS, "(v(phi) x v(phi+dphi)).axis / r^2 vs sin^2(theta) sin(dphi): right-handed sense");
	// overload without axis: the textbook formula, to 2 ulp per component (relative to r)
	long double e[3] = {(long double) r * sinl(th) * cosl(ph), (long double) r * sinl(th) * sinl(ph), (long double) r * cosl(th)};
	for(int i = 0; i < 3; i++)
		VCLOSE(c, "plain_formula", plain[i], (double) e[i], 4 * EPS * r, "component " << i << " of Spherical_Coordinates(r,theta,phi)");
}
