// C13 Named 1D methods and nested multi-dimensional integrals agree with analysis
#include "../engine/harness.hpp"

#include <functional>

#include "libphysica/Integration.hpp"

using namespace vf;
const char* const vf::kPropertyId = "C13";

namespace
{
const char* kMethods[] = {"Gauss-Legendre", "Gauss-Kronrod", "Tanh-Sinh", "Gauss-Legendre_2", "Adaptive-Simpson", "Trapezoidal"};

// a smooth 1D integrand with analytic integral and analytic integral of |f| (or an upper bound used as error scale)
struct Fn1
{
	std::function<double(double)> f;
	std::function<long double(long double, long double)> integral;	 // exact integral over [a,b]
	double a, b;
	long double abs_integral;	// integral of |f| over [a,b] (exact for sign-definite f; for the oscillation: of the envelope)
	bool simpson_regular = false;	// fourth derivative of one sign varying by at most 4 (C03 class)
	double max_f2 = 0;				// upper bound of |f''| on the interval
	std::string desc;
};
long double osc_primitive(long double al, long double om, long double ph, long double t)
{
	// primitive of exp(-al t) cos(om t + ph)
	return expl(-al * t) * (om * sinl(om * t + ph) - al * cosl(om * t + ph)) / (al * al + om * om);
}
Fn1 gen_fn(Src& s, bool gentle, int force_family = -1, bool adaptive_method = false)
{
	Fn1 F;
	std::ostringstream d;
	d << std::setprecision(17);
	int fam = s.pick({3, 3, 3, 2});
	if(force_family >= 0)
		fam = force_family;
	switch(fam)
	{
		case 0:
		{	// exponentially damped oscillation, up to two periods (gentle: one period)
			double L = std::pow(10.0, s.uniform(-2, 2)), a = s.uniform(-3, 3) * L;
			double periods = s.uniform(0.05, gentle ? 1.0 : 2.0);
			double om = 2 * M_PI * periods / L, al = s.uniform(0, 5) / L, ph = s.uniform(0, 2 * M_PI);
			F.a = a;
			F.b = a + L;
			// shift so that the damping starts at the lower limit (keeps magnitudes O(1))
			F.f			   = [=](double t) { return std::exp(-al * (t - a)) * std::cos(om * (t - a) + ph); };
			F.integral	   = [=](long double x, long double y) { return osc_primitive(al, om, ph, y - a) - osc_primitive(al, om, ph, x - a); };
			F.abs_integral = al > 0 ? -expm1l(-(long double) al * L) / al : (long double) L;	// integral of the envelope
			F.max_f2 = (al + om) * (al + om);
			d << "exp(-" << al << "(t-a)) cos(" << om << "(t-a)+" << ph << ")";
			break;
		}
		case 1:
		{	// Lorentzian, interval at most a few widths
			double g = std::pow(10.0, s.uniform(-2, 2)), x0 = s.uniform(-3, 3) * g;
			double wdt = g * s.uniform(0.2, gentle ? 2.0 : 4.0);
			double a   = x0 + g * s.uniform(-3, 3);
			F.a = a;
			F.b = a + wdt;
			F.f = [=](double x) { double t = (x - x0) / g; return 1.0 / (1.0 + t * t); };
			F.integral	   = [=](long double x, long double y) { return (long double) g * (atanl((y - x0) / g) - atanl((x - x0) / g)); };
			F.abs_integral = F.integral(F.a, F.b);
			F.max_f2 = 2.0 / (g * g);
			d << "1/(1+((x-" << x0 << ")/" << g << ")^2)";
			break;
		}
		case 2:
		{	// Gaussian, interval at most six standard deviations
			double sg = std::pow(10.0, s.uniform(-2, 2)), mu = s.uniform(-3, 3) * sg;
			double wdt = sg * s.uniform(0.2, gentle ? 3.0 : 6.0);
			double a   = mu + sg * s.uniform(-4, 2);
			if(adaptive_method && s.chance(0.3))
			{
				// an adaptive rule is not bound to what one panel resolves: the peak may be narrow compared with the interval (up to 40 sigma)
				wdt = sg * s.uniform(10, 40);
				a	= mu - wdt * s.uniform(0.2, 0.8);
			}
			F.a = a;
			F.b = a + wdt;
			F.f = [=](double x) { double t = (x - mu) / sg; return std::exp(-0.5 * t * t); };
			F.integral	   = [=](long double x, long double y) { return (long double) sg * sqrtl(M_PIl / 2) * (erfl((y - mu) / (sg * sqrtl(2.0L))) - erfl((x - mu) / (sg * sqrtl(2.0L)))); };
			F.abs_integral = F.integral(F.a, F.b);
			F.max_f2 = 1.0 / (sg * sg);
			d << "exp(-((x-" << mu << ")/" << sg << ")^2/2)";
			break;
		}
		default:
		{	// exp(w x) on a length where the fourth derivative varies by at most 4 (estimator-regular)
			double w = s.sign() * std::pow(10.0, s.uniform(-2, 2));
			double L = std::log(4.0) / std::fabs(w) * s.uniform(0.1, 0.999), a = s.uniform(-2, 2) / std::fabs(w);
			F.a = a;
			F.b = a + L;
			F.f = [=](double x) { return std::exp(w * x); };
			F.integral		  = [=](long double x, long double y) { return expl((long double) w * x) * expm1l((long double) w * (y - x)) / w; };
			F.abs_integral	  = F.integral(F.a, F.b);
			F.simpson_regular = true;
			F.max_f2 = w * w * std::max(std::exp(w * F.a), std::exp(w * F.b));
			d << "exp(" << w << " x)";
			break;
		}
	}
	d << " on [" << F.a << "," << F.b << "]";
	F.desc = d.str();
	return F;
}
}	// namespace

namespace
{
// Textbook adaptive Simpson exactly as the named method documents it: tolerance 1e-9 times the three-point estimate, halved per level, 20 levels,
// Richardson-corrected leaves. Accumulated in long double. It is the reference for WHERE that algorithm ends early (finding K3), not for the value.
long double model_simpson_rec(const std::function<double(double)>& f, double a, double b, long double eps, long double S, long double fa, long double fb, long double fc, int bottom)
{
	double cm = (a + b) / 2, d = (a + cm) / 2, e = (b + cm) / 2;
	long double h = (long double) b - a, fd = f(d), fe = f(e);
	long double Sl = (h / 12) * (fa + 4 * fd + fc), Sr = (h / 12) * (fc + 4 * fe + fb), S2 = Sl + Sr;
	if(bottom <= 0 || fabsl(S2 - S) <= 15 * eps)
		return S2 + (S2 - S) / 15;
	return model_simpson_rec(f, a, cm, eps / 2, Sl, fa, fc, fd, bottom - 1) + model_simpson_rec(f, cm, b, eps / 2, Sr, fc, fb, fe, bottom - 1);
}
long double model_simpson(const std::function<double(double)>& f, double a, double b)
{
	double cm = (a + b) / 2;
	long double h = (long double) b - a, fa = f(a), fb = f(b), fc = f(cm), S = (h / 6) * (fa + 4 * fc + fb);
	return model_simpson_rec(f, a, b, fabsl(1e-9L * S), S, fa, fb, fc, 20);
}
}	// namespace

VCLAUSE(methods_1d, 60, 12000, 250000, "limits reversed, or an explicit method_parameter, or the integrand changes sign")
{
	Src& s = c.s;
	int mi = s.pick({3, 3, 2, 3, 2, 1});
	std::string m = kMethods[mi];
	Fn1 F = gen_fn(s, mi == 5, -1, m == "Gauss-Kronrod");
	bool rev = s.coin();
	int par	 = 0;
	if(m == "Gauss-Legendre_2" && s.coin())
		par = (int) s.range(25, 64);   // explicit number of points (odd and even)
	if(m == "Gauss-Kronrod" && s.coin())
		par = (int) s.range(1, 12);	   // explicit maximal depth
	if(m == "Gauss-Kronrod" && par > 0 && par < 5 && (F.b - F.a) * (F.b - F.a) * F.max_f2 > 64)
		par = 0;   // a peak much narrower than the interval needs the default depth: an explicit smaller one is the caller's restriction
	if(m == "Adaptive-Simpson" && !F.simpson_regular && s.chance(0.6))
		F = gen_fn(s, false, 3);
	double A = rev ? F.b : F.a, B = rev ? F.a : F.b;
	long double exact = F.integral(A, B);
	if(rev || par != 0 || fabsl(exact) < 0.9L * F.abs_integral)
		c.nt();
	c.cls(m.c_str());
	VLOG(c, m << " par=" << par << " " << F.desc << " reversed=" << rev);
	double v = 0, vr = 0, z = 1;
	long ncalls = 0;
	std::function<double(double)> counted = [&](double x) { ncalls++; return F.f(x); };
	VMUST_RETURN("Integrate(" << m << ")", v = libphysica::Integrate(counted, A, B, m, par); vr = libphysica::Integrate(F.f, B, A, m, par); z = libphysica::Integrate(F.f, A, A, m, par));
	// an explicit number of points is the number of evaluations (a method_parameter that is dropped on the way would still meet the accuracy)
	if(m == "Gauss-Legendre_2")
	{
		VCHECK(ncalls == (par == 0 ? 30 : par), "Gauss-Legendre_2 with method_parameter " << par << " evaluated the integrand " << ncalls << " times");
		// the same limits again with another number of points: nothing of the previous call may be reused
		int par2 = par == 0 ? (int) s.range(25, 64) : (s.coin() ? 0 : (par % 2 ? par + 1 : par - 1));
		long n2	 = 0;
		double v2 = 0;
		std::function<double(double)> counted2 = [&](double x) { n2++; return F.f(x); };
		VMUST_RETURN("Integrate(Gauss-Legendre_2) again", v2 = libphysica::Integrate(counted2, A, B, m, par2));
		VCHECK(n2 == (par2 == 0 ? 30 : par2), "Gauss-Legendre_2 with method_parameter " << par2 << " right after one with " << par << " on the same limits evaluated the integrand " << n2 << " times");
		VCLOSE(c, "gl2_second_call_same_limits", v2, (double) exact, 1e-9 * (double) F.abs_integral, "Gauss-Legendre_2 (parameter " << par2 << ") right after parameter " << par << " on the same limits, " << F.desc);
	}
	VCHECK(same_bits(vr, -v) || (v == 0 && vr == 0), m << ": reversing the limits must negate the result exactly: " << v << " vs " << vr);
	VCHECK(z == 0.0, m << ": equal limits must give zero, got " << z);
	// accuracy relative to the integral of |f| (never to a cancelling integral)
	double rel;
	const char* nm;
	if(m == "Trapezoidal")
	{
		// boost's trapezoidal rule stops refining after 12 halvings (4096 panels): its error is then (b-a)^3 max|f''|/(12*4096^2).
		// Where that a-priori bound is below 3e-7 of the integral of |f| the stated 1e-6 is asserted, elsewhere only 1e-5 ("within that method's accuracy")
		double L   = F.b - F.a;
		double cap = L * L * L * F.max_f2 / (12.0 * 4096.0 * 4096.0);
		if(cap <= 3e-7 * (double) F.abs_integral)
		{
			rel = 1e-6;
			nm	= "trapezoidal_1e-6";
		}
		else
		{
			rel = 1e-5;
			nm	= "trapezoidal_beyond_refinement_cap_1e-5";
			c.cls("trapezoidal_beyond_refinement_cap");
		}
	}
	else if(m == "Adaptive-Simpson" && !F.simpson_regular)
	{
		// Finding K3: adaptive Simpson ends its recursion wherever the two Simpson estimates of a panel agree by accident, however wrong both
		// are (1/(1+t^2) on [-0.32,3.17] widths: 2.7e-7 instead of 1e-9). Whether that happens is a property of the algorithm on the given
		// integrand and interval, so the matcher is the textbook algorithm itself: where IT meets 1e-9 (with a factor two to spare) the library
		// must meet 1e-9 as stated; where it does not, the case is excluded (counted) and the library must at least not be worse than it.
		long double model = model_simpson(F.f, F.a, F.b) * (rev ? -1 : 1);
		double err_model  = (double) fabsl(model - exact), tol9 = 1e-9 * (double) F.abs_integral;
		if(err_model > 0.5 * tol9 && finding_open("K3"))
		{
			c.known("K3");
			c.cls("adaptive_simpson_estimator_coincidence");
			VCLOSE(c, "adaptive_simpson_no_worse_than_textbook", v, (double) exact, 1.05 * err_model + 1e-12 * (double) F.abs_integral,
				   "Adaptive-Simpson on " << F.desc << ": excluded from the 1e-9 claim by finding K3 (textbook error " << err_model << "), but the library must not be worse than the textbook algorithm");
			return;
		}
		rel = 1e-9;
		nm	= "adaptive_simpson_1e-9_outside_regular_class";
	}
	else
	{
		rel = 1e-9;
		nm	= m == "Adaptive-Simpson" ? "adaptive_simpson_1e-9" : "spectral_methods_1e-9";
	}
	VCLOSE(c, nm, v, (double) exact, rel * (double) F.abs_integral, m << " (parameter " << par << ") on " << F.desc);
}

// The accuracy classes are relative: an interval of any absolute size, (a,b) -> (a,b)*2^k with the integrand compressed and raised to keep the
// integral, is the same request. Only exactly equal limits give zero - limits 1e-20 apart are distinct. The scale is a power of two so that
// the integrand is evaluated at exactly the scaled abscissae; the oracle is the analytic integral and the method's stated accuracy, asserted
// wherever the library meets that accuracy on the unscaled request (elsewhere the case belongs to methods_1d / finding K3 and is only counted).
VCLAUSE(scaled_intervals, 60, 4000, 80000, "the interval is shorter than 1e-15 or longer than 1e15 in absolute terms, or the limits are reversed")
{
	Src& s = c.s;
	int mi = s.pick({3, 3, 2, 3, 2, 1});
	std::string m = kMethods[mi];
	Fn1 F = gen_fn(s, mi == 5, -1, m == "Gauss-Kronrod");
	bool rev = s.coin();
	int k = (int) s.range(10, 220) * (s.chance(0.75) ? -1 : 1);
	double sc = std::ldexp(1.0, k);
	double A0 = rev ? F.b : F.a, B0 = rev ? F.a : F.b, A = A0 * sc, B = B0 * sc;
	long double exact = F.integral(A0, B0);
	if(std::fabs(B - A) < 1e-15 || std::fabs(B - A) > 1e15 || rev)
		c.nt();
	c.cls(m.c_str());
	c.cls(k < 0 ? "interval_scaled_down" : "interval_scaled_up");
	std::function<double(double)> f0 = F.f;
	std::function<double(double)> g	 = [=](double t) { return f0(t / sc) / sc; };
	VLOG(c, m << " on [" << A << "," << B << "] = 2^" << k << " * [" << A0 << "," << B0 << "] of g(t) = f(t/2^k)/2^k, f = " << F.desc);
	double v0 = 0, v = 0;
	VMUST_RETURN("Integrate(" << m << ") unscaled", v0 = libphysica::Integrate(f0, A0, B0, m, 0));
	double rel = m == "Trapezoidal" ? 1e-5 : 1e-9;
	if(!(std::fabs((long double) v0 - exact) <= rel * (double) F.abs_integral))
	{
		c.cls("unscaled_request_outside_accuracy_class");
		return;
	}
	VMUST_RETURN("Integrate(" << m << ") scaled", v = libphysica::Integrate(g, A, B, m, 0));
	VCLOSE(c, "scaled_interval_accuracy", v, (double) exact, 2 * rel * (double) F.abs_integral,
		   m << " on the interval scaled by 2^" << k << " (length " << std::fabs(B - A) << "); the unscaled request returned " << v0);
}

// separable integrands with distinct, pairwise disjoint limit ranges per axis: a swapped argument or limit is visible at once
VCLAUSE(nested_2d_3d, 60, 3000, 60000, "at least one axis has reversed limits, or the method is not the default")
{
	Src& s	   = c.s;
	bool three = s.coin();
	int nd	   = three ? 3 : 2;
	// disjoint ranges: axis k lives in [10k+1, 10k+9] * scale
	double lo[3], hi[3];
	bool rv[3];
	for(int k = 0; k < nd; k++)
	{
		double base = 10.0 * k + 1 + 3 * s.unit(), len = 0.5 + 3 * s.unit();
		lo[k] = base;
		hi[k] = base + len;
		rv[k] = s.chance(0.3);
	}
	// factors: polynomial (exact for small Gauss rules) or smooth
	// (three dimensions: the trapezoidal rule would need ~1e8 evaluations per case and is left to the 2D cases)
	int mi = three ? s.pick({3, 2, 3, 2, 0.12, 0}) : s.pick({3, 2, 1, 3, 1, 1});
	std::string m = kMethods[mi];
	int par = 0;
	bool poly = false;
	bool product_only = false;	 // small explicit order on a non-polynomial integrand: only "equals the product of the 1D integrals" is asserted
	if(m == "Gauss-Legendre_2")
	{
		par	 = (int) s.range(4, three ? 8 : 30);
		poly = par < 25;
		if(poly && s.coin())
		{
			poly		 = false;
			product_only = true;
		}
	}
	if(m == "Gauss-Kronrod" && s.coin())
		par = (int) s.range(1, 6);
	double cf[3][4];
	double ga[3];
	for(int k = 0; k < nd; k++)
	{
		for(int j = 0; j < 4; j++)
			cf[k][j] = s.small_int(4);
		cf[k][0] += 6;	 // keep the factor positive on its range
		ga[k] = s.uniform(0.05, 0.4);
	}
	auto fac = [&](int k, double x) {
		double t = x - lo[k];
		if(poly)
			return cf[k][0] + t * (cf[k][1] + t * (cf[k][2] + t * cf[k][3]));
		return std::exp(-ga[k] * t) * (2.0 + std::sin(t));
	};
	auto exact1 = [&](int k) {
		long double L = (long double) hi[k] - lo[k];
		long double v;
		if(poly)
			v = cf[k][0] * L + cf[k][1] * L * L / 2 + cf[k][2] * L * L * L / 3 + cf[k][3] * L * L * L * L / 4;
		else
		{
			long double g = ga[k];
			// int_0^L e^{-g t}(2+sin t) dt
			v = 2 * (-expm1l(-g * L)) / g + (1 - expl(-g * L) * (g * sinl(L) + cosl(L))) / (1 + g * g);
		}
		return rv[k] ? -v : v;
	};
	bool anyrev = false;
	for(int k = 0; k < nd; k++)
		anyrev |= rv[k];
	if(anyrev || mi != 0)
		c.nt();
	c.cls(three ? "3D" : "2D");
	c.cls(m.c_str());
	if(anyrev)
		c.cls("some_axis_reversed");
	double L0[3], H0[3];
	for(int k = 0; k < nd; k++)
	{
		L0[k] = rv[k] ? hi[k] : lo[k];
		H0[k] = rv[k] ? lo[k] : hi[k];
	}
	VLOG(c, (three ? "Integrate_3D" : "Integrate_2D") << " " << m << " par=" << par << " poly=" << poly << " x:[" << L0[0] << "," << H0[0] << "] y:[" << L0[1] << "," << H0[1] << "]" << (three ? " z:[" : "") << (three ? std::to_string(L0[2]) + "," + std::to_string(H0[2]) + "]" : ""));
	long calls = 0, bad = 0;
	double badv[3] = {0, 0, 0};
	auto check_arg = [&](int k, double x) {
		if(!(x >= lo[k] && x <= hi[k]))
		{
			if(!bad)
			{
				badv[0] = k;
				badv[1] = x;
			}
			bad++;
		}
	};
	double v = 0;
	if(three)
	{
		std::function<double(double, double, double)> f3 = [&](double x, double y, double z) {
			calls++;
			check_arg(0, x);
			check_arg(1, y);
			check_arg(2, z);
			return fac(0, x) * fac(1, y) * fac(2, z);
		};
		VMUST_RETURN("Integrate_3D", v = libphysica::Integrate_3D(f3, L0[0], H0[0], L0[1], H0[1], L0[2], H0[2], m, par));
	}
	else
	{
		std::function<double(double, double)> f2 = [&](double x, double y) {
			calls++;
			check_arg(0, x);
			check_arg(1, y);
			return fac(0, x) * fac(1, y);
		};
		VMUST_RETURN("Integrate_2D", v = libphysica::Integrate_2D(f2, L0[0], H0[0], L0[1], H0[1], m, par));
	}
	// an explicit method_parameter takes effect at every level of the nesting: Gauss-Legendre_2 with n points evaluates exactly n^d times
	if(m == "Gauss-Legendre_2")
		VCHECK(calls == (long) std::pow((double) (par == 0 ? 30 : par), nd), "Gauss-Legendre_2 with method_parameter " << par << " evaluated the integrand " << calls << " times in " << nd << " dimensions, expected " << (par == 0 ? 30 : par) << "^" << nd);
	VCHECK(bad == 0, bad << " of " << calls << " evaluations passed an argument outside the limits of its own axis: argument " << (int) badv[0] << " received " << badv[1] << " (axis range [" << lo[(int) badv[0]] << "," << hi[(int) badv[0]] << "])");
	long double exact = 1, mag = 1;
	for(int k = 0; k < nd; k++)
	{
		exact *= exact1(k);
		mag *= fabsl(exact1(k));
	}
	double rel = (m == "Trapezoidal") ? 1e-6 : 1e-9;
	bool k3 = false;
	if(m == "Adaptive-Simpson")
	{
		// K3 (see methods_1d): the nested integral of a separable integrand inherits the coincidences of its one-dimensional factors
		for(int k = 0; k < nd; k++)
		{
			std::function<double(double)> fk = [&](double x) { return fac(k, x); };
			long double mk = model_simpson(fk, lo[k], hi[k]) * (rv[k] ? -1 : 1);
			if(fabsl(mk - exact1(k)) > 0.3e-9L * fabsl(exact1(k)))
				k3 = true;
		}
		k3 = k3 && finding_open("K3");
		if(k3)
		{
			c.known("K3");
			rel = 1e-6;	  // sanity only
		}
	}
	if(!product_only)
		VCLOSE(c, three ? "separable_3d" : "separable_2d", v, (double) exact, nd * rel * (double) mag, (three ? "Integrate_3D" : "Integrate_2D") << " with " << m << " vs the product of the exact 1D integrals");
	// for the fixed rules - and for adaptive Simpson, whose decisions are invariant under scaling the integrand - the nested integral of a
	// separable integrand is the product of the same method's 1D integrals up to rounding
	if(m == "Gauss-Legendre" || m == "Gauss-Legendre_2" || m == "Adaptive-Simpson")
	{
		long double prod = 1, prodabs = 1;
		for(int k = 0; k < nd; k++)
		{
			double i1 = 0, i1abs = 0;
			VMUST_RETURN("Integrate (1D factor)", i1 = libphysica::Integrate([&](double x) { return fac(k, x); }, L0[k], H0[k], m, par); i1abs = libphysica::Integrate([&](double x) { return std::fabs(fac(k, x)); }, L0[k], H0[k], m, par));
			prod *= i1;
			prodabs *= std::fabs(i1abs);
		}
		// (rounding is relative to the sum of the magnitudes of the terms: a cubic factor may change sign and its integral cancel)
		VCLOSE(c, "product_of_library_1d_integrals", v, (double) prod, (m == "Adaptive-Simpson" ? 1e-11 : 1e-12) * std::max(std::fabs((double) prod), (double) prodabs), (three ? "Integrate_3D" : "Integrate_2D") << " with " << m << " (parameter " << par << ") vs the product of the library's own 1D integrals with the same method and parameter");
	}
}

VCLAUSE(spherical, 40, 1500, 30000, "an angular sub-range (not the full sphere) is integrated, or a limit pair is reversed")
{
	Src& s = c.s;
	double r1 = std::pow(10.0, s.uniform(-1, 1)), r2 = r1 * (1 + s.uniform(0.1, 2));
	bool full = s.chance(0.25);
	double c1 = -1, c2 = 1, p1 = 0, p2 = 2 * M_PI;
	if(!full)
	{
		c1 = s.uniform(-1, 0.8);
		c2 = c1 + (1 - c1) * s.uniform(0.1, 1);
		p1 = s.uniform(0, 5);
		p2 = p1 + (2 * M_PI - p1) * s.uniform(0.1, 1);
	}
	bool rr = s.chance(0.2), rc = s.chance(0.2), rp = s.chance(0.2);
	int mi = s.pick({3, 2, 2});
	std::string m = mi == 0 ? "Gauss-Legendre" : (mi == 1 ? "Gauss-Kronrod" : "Gauss-Legendre_2");
	int par = (mi == 2) ? (int) s.range(12, 30) : (mi == 1 ? 1 : 0);
	double al = s.uniform(0.1, 1.5), gq = s.uniform(-0.5, 0.5), hq = s.uniform(-0.5, 0.5);
	if(!full || rr || rc || rp)
		c.nt();
	VLOG(c, "spherical " << m << " par=" << par << " r:[" << r1 << "," << r2 << "] cos:[" << c1 << "," << c2 << "] phi:[" << p1 << "," << p2 << "] reversed r/cos/phi=" << rr << rc << rp << " full=" << full);
	long calls = 0, bad = 0;
	std::string first_bad;
	std::function<double(libphysica::Vector)> f = [&](libphysica::Vector v) {
		calls++;
		double x = v[0], y = v[1], z = v[2];
		double r = std::sqrt(x * x + y * y + z * z), ct = z / r, ph = std::atan2(y, x);
		if(ph < 0)
			ph += 2 * M_PI;
		bool okr = r >= r1 * (1 - 1e-12) && r <= r2 * (1 + 1e-12);
		bool okc = ct >= c1 - 1e-12 && ct <= c2 + 1e-12;
		// azimuth is irrelevant on the poles; compare modulo 2 pi with a small slack
		bool okp = (1 - std::fabs(ct) < 1e-12) || (ph >= p1 - 1e-9 && ph <= p2 + 1e-9) || (ph + 2 * M_PI <= p2 + 1e-9) || (p1 <= 1e-9 && 2 * M_PI - ph < 1e-9);
		if(!(okr && okc && okp))
		{
			if(!bad)
			{
				std::ostringstream os;
				os << std::setprecision(17) << "vector (" << x << "," << y << "," << z << ") has norm " << r << " cos(theta) " << ct << " phi " << ph;
				first_bad = os.str();
			}
			bad++;
		}
		return std::exp(-al * r) * (1 + gq * ct) * (1 + hq * std::cos(ph));
	};
	double v = 0;
	VMUST_RETURN("Integrate_3D (spherical)", v = libphysica::Integrate_3D(f, rr ? r2 : r1, rr ? r1 : r2, rc ? c2 : c1, rc ? c1 : c2, rp ? p2 : p1, rp ? p1 : p2, m, par));
	VCHECK(bad == 0, bad << " of " << calls << " vectors outside the requested shell sector r:[" << r1 << "," << r2 << "] cos:[" << c1 << "," << c2 << "] phi:[" << p1 << "," << p2 << "]: " << first_bad);
	// exact: int r^2 e^{-al r} dr * int (1+g c) dc * int (1+h cos phi) dphi
	auto R = [&](long double r) { return -expl(-al * r) * (r * r / al + 2 * r / (al * al) + 2 / ((long double) al * al * al)); };
	long double ir = R(r2) - R(r1), ic = ((long double) c2 - c1) + gq * ((long double) c2 * c2 - (long double) c1 * c1) / 2, ip = ((long double) p2 - p1) + hq * (sinl(p2) - sinl(p1));
	long double exact = ir * ic * ip * (rr ? -1 : 1) * (rc ? -1 : 1) * (rp ? -1 : 1);
	VCLOSE(c, "spherical_shell", v, (double) exact, 3e-9 * (double) fabsl(ir * ic * ip), "spherical Integrate_3D vs the product of the radial (with r^2), polar and azimuthal integrals");
}
