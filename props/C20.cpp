// C20 Exported data read back unchanged; units convert consistently in every build
#include "../engine/harness.hpp"
#include <sstream>

#include <cstdlib>
#include <fstream>
#include <functional>
#include <map>
#include <unistd.h>

#include "libphysica/Natural_Units.hpp"
#include "libphysica/Special_Functions.hpp"
#include "libphysica/Utilities.hpp"

using namespace vf;
using namespace libphysica;
const char* const vf::kPropertyId = "C20";

namespace
{
struct TmpFile
{
	std::string path;
	TmpFile()
	{
		char tmpl[] = "/dev/shm/vf_c20_XXXXXX";
		int fd		= mkstemp(tmpl);
		if(fd < 0)
		{
			char t2[] = "/tmp/vf_c20_XXXXXX";
			fd		  = mkstemp(t2);
			path	  = t2;
		}
		else
			path = tmpl;
		if(fd >= 0)
			close(fd);
	}
	~TmpFile() { unlink(path.c_str()); }
};
// finite value over 600 decades of either sign, integers and fractions
double gen_value(Src& s)
{
	switch(s.pick({4, 2, 2, 1, 1}))
	{
		case 0: return s.sign() * s.uniform(1, 10) * std::pow(10.0, (double) s.range(-290, 290));
		case 1: return (double) s.range(-100000, 100000);
		case 2: return (double) s.range(-1000, 1000) / (double) s.range(1, 64);
		case 3: return 0.0;
		default: return s.sign() * s.uniform(1, 10) * std::pow(10.0, s.uniform(-3, 3));
	}
}
// unit factor over 60 decades such that value/unit stays a normal number
double gen_unit(Src& s, double vmax, double vmin_nonzero)
{
	for(int tries = 0; tries < 8; tries++)
	{
		double u = s.coin() ? std::pow(10.0, s.uniform(-30, 30)) : (s.coin() ? 1.0 : std::pow(10.0, (double) s.range(-30, 30)));
		if(vmax / u < 1e300 && (vmin_nonzero == 0 || vmin_nonzero / u > 1e-300))
			return u;
	}
	return 1.0;
}
std::string gen_header(Src& s, int& lines)
{
	lines = s.pick({2, 2, 1, 1, 1});
	static const char* pool[] = {"# column data", "x [GeV]\ty [cm^2]", "1 2 3 not data", "created by a test; 4.5e3", "#", "   ", "// energy   rate", ""};
	std::string h;
	for(int i = 0; i < lines; i++)
	{
		if(i)
			h += "\n";
		h += pool[s.range(0, (i == 0 || i == lines - 1) ? 6 : 7)];	// blank lines only inside a multi-line header
		// a line naming many columns with their units is long: up to a few thousand characters (the reader skips lines of up to 10000)
		if(s.chance(0.08))
		{
			int len = (int) s.range(100, 4000);
			std::string longline = "# ";
			while((int) longline.size() < len)
				longline += "column_" + std::to_string(longline.size()) + " [GeV^-1 cm^2]  ";
			h += longline;
		}
	}
	if(lines > 0 && h.empty())
		h = "#";
	return h;
}
void close_enough(Ctx& c, const char* what, double read, double written, size_t i, size_t j)
{
	// six significant digits in the file: relative error <= 5e-6 (plus the rounding of value/unit*unit)
	double tol = 5.1e-6 * std::fabs(written);
	VCLOSE(c, "six_significant_digits", read, written, tol, what << " entry (" << i << "," << j << "): read " << read << " written " << written);
}
}	// namespace

VCLAUSE(table_roundtrip, 2600, 2500, 50000, "per-column unit factors and a header of one or more lines are used, or the table has more than 50 rows")
{
	Src& s = c.s;
	int rows = s.chance(0.2) ? (int) s.range(51, 200) : (int) s.sized(1, 50), cols = (int) s.range(1, 12);
	std::vector<std::vector<double>> t((size_t) rows, std::vector<double>((size_t) cols));
	std::vector<double> cmax((size_t) cols, 0.0), cmin((size_t) cols, 0.0);
	int colmode = 0;
	for(int j = 0; j < cols; j++)
	{
		colmode = s.pick({3, 1});
		double fixed_mag = std::pow(10.0, (double) s.range(-280, 280));
		for(int i = 0; i < rows; i++)
		{
			double v = colmode == 0 ? gen_value(s) : s.sign() * s.uniform(1, 10) * fixed_mag;
			t[(size_t) i][(size_t) j] = v;
			if(v != 0)
			{
				cmax[(size_t) j] = std::max(cmax[(size_t) j], std::fabs(v));
				cmin[(size_t) j] = cmin[(size_t) j] == 0 ? std::fabs(v) : std::min(cmin[(size_t) j], std::fabs(v));
			}
		}
	}
	bool with_units = s.coin();
	std::vector<double> dims;
	if(with_units)
		for(int j = 0; j < cols; j++)
			dims.push_back(gen_unit(s, cmax[(size_t) j], cmin[(size_t) j]));
	int hl = 0;
	std::string header = gen_header(s, hl);
	if((with_units && hl >= 1) || rows > 50)
		c.nt();
	VLOG(c, "Export_Table/Import_Table " << rows << "x" << cols << " units=" << (with_units ? show(dims) : "none") << " header lines=" << hl << " first row " << show(t[0]));
	TmpFile f;
	std::vector<std::vector<double>> r;
	VMUST_RETURN("Export_Table + Import_Table", Export_Table(f.path, t, dims, header); r = Import_Table(f.path, dims, (unsigned) hl));
	VCHECK((int) r.size() == rows, "read back " << r.size() << " rows, wrote " << rows << " (header lines " << hl << ")");
	for(int i = 0; i < rows; i++)
	{
		VCHECK((int) r[(size_t) i].size() == cols, "row " << i << " has " << r[(size_t) i].size() << " columns, wrote " << cols);
		for(int j = 0; j < cols; j++)
			close_enough(c, "table", r[(size_t) i][(size_t) j], t[(size_t) i][(size_t) j], (size_t) i, (size_t) j);
	}
	// the file itself ("files written by Export_*"): the header comes first, verbatim; then one line per row holding the values in units of
	// the column's factor, to six significant digits. (A writer that ignores the units and a reader that ignores them too would round-trip.)
	{
		std::ifstream in(f.path);
		VCHECK(in.good(), "harness: cannot re-open the exported file");
		std::vector<std::string> lines;
		std::string ln;
		while(std::getline(in, ln))
			lines.push_back(ln);
		std::vector<std::string> hls;
		{
			std::istringstream hs(header);
			std::string h1;
			while(std::getline(hs, h1))
				hls.push_back(h1);
			if(hl > (int) hls.size())
				hls.resize((size_t) hl);	 // a header ending in blank lines
		}
		VCHECK((int) lines.size() == hl + rows, "the exported file has " << lines.size() << " lines for " << hl << " header lines and " << rows << " rows");
		for(int i = 0; i < hl; i++)
			VCHECK(lines[(size_t) i] == hls[(size_t) i], "header line " << i << " in the file is '" << lines[(size_t) i] << "', written '" << hls[(size_t) i] << "'");
		int probe_rows = std::min(rows, 6);
		for(int q = 0; q < probe_rows; q++)
		{
			int i = q < 3 ? q : rows - 1 - (q - 3);
			if(i < 0 || i >= rows)
				continue;
			std::istringstream ls(lines[(size_t) (hl + i)]);
			for(int j = 0; j < cols; j++)
			{
				double tok = 0;
				VCHECK((bool) (ls >> tok), "row " << i << " of the file has fewer than " << cols << " numbers: '" << lines[(size_t) (hl + i)] << "'");
				double expect = t[(size_t) i][(size_t) j] / (with_units ? dims[(size_t) j] : 1.0);
				VCLOSE(c, "file_token_in_units", tok, expect, 5.1e-6 * std::fabs(expect), "number " << j << " in row " << i << " of the file vs value/unit");
			}
			double extra = 0;
			VCHECK(!(ls >> extra), "row " << i << " of the file has more than " << cols << " numbers");
		}
	}
}

VCLAUSE(list_roundtrip, 500, 2500, 50000, "a unit factor other than 1 and a header are used")
{
	Src& s = c.s;
	int n = (int) s.sized(1, 200);
	std::vector<double> l((size_t) n);
	double vmax = 0, vmin = 0;
	for(auto& v : l)
	{
		v = gen_value(s);
		if(v != 0)
		{
			vmax = std::max(vmax, std::fabs(v));
			vmin = vmin == 0 ? std::fabs(v) : std::min(vmin, std::fabs(v));
		}
	}
	double u = s.coin() ? gen_unit(s, vmax, vmin) : 1.0;
	int hl = 0;
	std::string header = gen_header(s, hl);
	if(u != 1.0 && hl >= 1)
		c.nt();
	VLOG(c, "Export_List/Import_List n=" << n << " unit=" << u << " header lines=" << hl << " values " << show(l, 6));
	TmpFile f;
	std::vector<double> r;
	VMUST_RETURN("Export_List + Import_List", Export_List(f.path, l, u, header); r = Import_List(f.path, u, (unsigned) hl));
	VCHECK((int) r.size() == n, "read back " << r.size() << " values, wrote " << n << " (header lines " << hl << ")");
	for(int i = 0; i < n; i++)
		close_enough(c, "list", r[(size_t) i], l[(size_t) i], (size_t) i, 0);
}

VCLAUSE(function_roundtrip, 300, 2500, 50000, "logarithmic abscissae, or unit factors for both columns")
{
	Src& s = c.s;
	bool by_range = s.coin(), logsp = false;
	double a = std::pow(10.0, s.uniform(-20, 20)), b = a * std::pow(10.0, s.uniform(0.1, 6));
	unsigned steps = (unsigned) s.range(2, 200);
	std::vector<double> xs;
	if(by_range)
		logsp = s.coin();
	else
	{
		int n = (int) s.range(1, 100);
		for(int i = 0; i < n; i++)
			xs.push_back(a + (b - a) * i / std::max(n - 1, 1));
	}
	double p = s.uniform(-3, 3), amp = s.sign() * std::pow(10.0, s.uniform(-50, 50));
	auto fn	 = [=](double x) { return amp * std::pow(x / a, p); };
	bool units = s.coin();
	std::vector<double> dims;
	if(units)
		dims = {std::pow(10.0, s.uniform(-30, 30)), std::pow(10.0, s.uniform(-30, 30))};
	int hl = 0;
	std::string header = gen_header(s, hl);
	if(logsp || units)
		c.nt();
	VLOG(c, "Export_Function by_range=" << by_range << " log=" << logsp << " [" << a << "," << b << "] steps=" << steps << " units=" << show(dims) << " header lines=" << hl);
	TmpFile f;
	std::vector<std::vector<double>> r;
	std::vector<double> expect_x;
	if(by_range)
	{
		VMUST_RETURN("Export_Function(range) + Import_Table", Export_Function(f.path, fn, a, b, steps, dims, logsp, header); r = Import_Table(f.path, dims, (unsigned) hl); expect_x = logsp ? Log_Space(a, b, steps) : Linear_Space(a, b, steps));
	}
	else
	{
		VMUST_RETURN("Export_Function(list) + Import_Table", Export_Function(f.path, fn, xs, dims, header); r = Import_Table(f.path, dims, (unsigned) hl));
		expect_x = xs;
	}
	VCHECK(r.size() == expect_x.size(), "read back " << r.size() << " rows, expected " << expect_x.size());
	for(size_t i = 0; i < r.size(); i++)
	{
		VCHECK(r[i].size() == 2, "row " << i << " has " << r[i].size() << " columns");
		close_enough(c, "function x", r[i][0], expect_x[i], i, 0);
		close_enough(c, "function f", r[i][1], fn(expect_x[i]), i, 1);
	}
}

VCLAUSE(in_units, 80, 12000, 250000, "rounding is requested with a digit count other than the default 4, or per-column dimensions are used")
{
	Src& s = c.s;
	double u = s.coin() ? std::pow(10.0, s.uniform(-30, 30)) : std::ldexp(1.0, (int) s.range(-60, 60));
	bool round = s.coin();
	int digits = (int) s.range(1, 7);
	int n = (int) s.range(1, 6), m = (int) s.range(1, 5);
	std::vector<std::vector<double>> q((size_t) n, std::vector<double>((size_t) m));
	for(auto& r : q)
		for(auto& v : r)
			v = s.chance(0.1) ? 0.0 : s.sign() * s.uniform(1, 10) * std::pow(10.0, s.uniform(-20, 20));
	std::vector<double> dims((size_t) m);
	for(auto& d : dims)
		d = std::pow(10.0, s.uniform(-30, 30));
	bool percol = s.coin();
	if((round && digits != 4) || percol)
		c.nt();
	VLOG(c, "In_Units unit=" << u << " round=" << round << " digits=" << digits << " table " << n << "x" << m << " per-column=" << percol);
	auto expect = [&](double x, double unit) {
		// x was built as (number)*unit; In_Units must give back the number (2 ulp), or its rounding to the requested digits
		double v = x / unit;
		return round ? Round(v, (unsigned) digits) : v;
	};
	// scalar / list / table / Vector / Matrix with one unit
	std::vector<std::vector<double>> scaled = q;
	for(auto& r : scaled)
		for(auto& v : r)
			v *= u;
	double sc = 0;
	std::vector<double> li;
	std::vector<std::vector<double>> tb, tc;
	Vector vec;
	Matrix mat;
	std::vector<std::vector<double>> scaledc = q;
	for(auto& r : scaledc)
		for(size_t j = 0; j < r.size(); j++)
			r[j] *= dims[j];
	VMUST_RETURN("In_Units overloads", sc = natural_units::In_Units(scaled[0][0], u, round, digits); li = natural_units::In_Units(scaled[0], u, round, digits); tb = natural_units::In_Units(scaled, u, round, digits);
				 vec = natural_units::In_Units(Vector(scaled[0]), u, round, digits); mat = natural_units::In_Units(Matrix(scaled), u, round, digits); tc = natural_units::In_Units(scaledc, dims, round, digits));
	auto cmp = [&](const char* what, double got, double x, double unit, double orig) {
		double e = expect(x, unit);
		if(same_bits(got, e) || got == e)
			c.cls("in_units_equals_quotient_bitwise");
		if(!round)
		{
			// division, or multiplication by the reciprocal: both are within 2 eps of the quotient and of the original number
			VCLOSE(c, "quotient", got, x / unit, 2 * EPS * std::fabs(x / unit), what << ": In_Units(" << x << "," << unit << ")");
			VCLOSE(c, "undoes_multiplication", got, orig, 2 * EPS * std::fabs(orig), what << ": In_Units(x*u,u) must give back x");
			return;
		}
		// rounding requested: independent of the library's Round: the result has at most `digits` significant digits and lies within half a
		// unit of the last of them from the original number
		if(orig == 0)
		{
			VCHECK(got == 0, what << ": In_Units(0) = " << got);
			return;
		}
		long double ax = fabsl((long double) orig);
		int ex		   = (int) floorl(log10l(ax));
		if(powl(10.0L, ex + 1) <= ax)
			ex++;
		if(powl(10.0L, ex) > ax)
			ex--;
		long double unit_d = powl(10.0L, ex - digits + 1), qd = (long double) got / unit_d;
		VCLOSE(c, "rounded_within_half_unit", (double) (fabsl((long double) got - orig) / unit_d), 0.0, 0.5 * (1 + 1e-6) + 16 * EPS * (double) (ax / unit_d),
			   what << ": In_Units(" << x << "," << unit << ",round,digits=" << digits << ")=" << got << " vs the original number " << orig << ", in units of its last requested digit");
		VCHECK(fabsl(qd - rintl(qd)) <= 1e-6L && fabsl(qd) <= powl(10.0L, digits) * (1 + 1e-9L),
			   what << ": In_Units(" << x << "," << unit << ",round,digits=" << digits << ")=" << got << " has more than " << digits << " significant digits (" << (double) qd << " units of the last one)");
	};
	cmp("scalar", sc, scaled[0][0], u, q[0][0]);
	VCHECK((int) li.size() == m && (int) tb.size() == n && (int) vec.Size() == m && (int) mat.Rows() == n && (int) mat.Columns() == m && (int) tc.size() == n, "shapes of the In_Units results");
	for(int j = 0; j < m; j++)
	{
		cmp("list", li[(size_t) j], scaled[0][(size_t) j], u, q[0][(size_t) j]);
		cmp("Vector", vec[(unsigned) j], scaled[0][(size_t) j], u, q[0][(size_t) j]);
	}
	for(int i = 0; i < n; i++)
	{
		VCHECK((int) tb[(size_t) i].size() == m && (int) tc[(size_t) i].size() == m, "row sizes of the In_Units results");
		for(int j = 0; j < m; j++)
		{
			cmp("table", tb[(size_t) i][(size_t) j], scaled[(size_t) i][(size_t) j], u, q[(size_t) i][(size_t) j]);
			cmp("Matrix", mat[(unsigned) i][(unsigned) j], scaled[(size_t) i][(size_t) j], u, q[(size_t) i][(size_t) j]);
			cmp("table with per-column units", tc[(size_t) i][(size_t) j], scaledc[(size_t) i][(size_t) j], dims[(size_t) j], q[(size_t) i][(size_t) j]);
		}
	}
}

// ---- every derived unit constant equals its defining product, in every build ---------------------------------------------
// vrun.py builds src/Natural_Units.cpp with g++ and clang++ at -O0 and -O2 (plus this binary's own g++ -O1 sanitizer build), runs a
// probe that prints every constant of Natural_Units.hpp as a hex float, and passes the directory in VERIF_UNITS_DIR.
namespace
{
typedef std::map<std::string, double> Consts;
bool load_consts(const std::string& path, Consts& m)
{
	std::ifstream in(path);
	if(!in)
		return false;
	std::string name, hex;
	while(in >> name >> hex)
		m[name] = strtod(hex.c_str(), nullptr);
	return !m.empty();
}
struct Identity
{
	const char* name;
	std::function<double(const Consts&)> lhs, rhs;
	double ulps;
};
double K(const Consts& m, const char* n)
{
	auto it = m.find(n);
	if(it == m.end())
		VFAIL("unit constant " << n << " is missing from the probe output");
	return it->second;
}
std::vector<Identity> identities()
{
	std::vector<Identity> v;
#define ID(nm, L, R, U) v.push_back({nm, [](const Consts& m) { (void) m; return (double) (L); }, [](const Consts& m) { (void) m; return (double) (R); }, U})
#define k(n) K(m, #n)
	ID("Joule = kg m^2/s^2", k(Joule), k(kg) * std::pow(k(meter) / k(sec), 2), 4);
	ID("erg = g cm^2/s^2", k(erg), k(gram) * std::pow(k(cm) / k(sec), 2), 4);
	ID("Joule = 1e7 erg", k(Joule), 1e7 * k(erg), 16);
	ID("cal = 4.184 Joule", k(cal), 4.184 * k(Joule), 4);
	ID("kg = 1e3 gram", k(kg), 1e3 * k(gram), 4);
	ID("tonne = 1e3 kg", k(tonne), 1e3 * k(kg), 4);
	ID("Newton = kg m/s^2", k(Newton), k(kg) * k(meter) / k(sec) / k(sec), 4);
	ID("dyne = 1e-5 Newton", k(dyne), 1e-5 * k(Newton), 4);
	ID("dyne = g cm/s^2", k(dyne), k(gram) * k(cm) / k(sec) / k(sec), 16);
	ID("Watt = Joule/s", k(Watt), k(Joule) / k(sec), 4);
	ID("Pa = Newton/m^2", k(Pa), k(Newton) / k(meter) / k(meter), 4);
	ID("hPa", k(hPa), 1e2 * k(Pa), 4);
	ID("kPa", k(kPa), 1e3 * k(Pa), 4);
	ID("bar = 1e5 Pa", k(bar), 1e5 * k(Pa), 4);
	ID("barye = dyne/cm^2", k(barye), k(dyne) / k(cm) / k(cm), 4);
	ID("Volt*Coulomb = Joule", k(Volt) * k(Coulomb), k(Joule), 4);
	ID("Ohm = Volt/Ampere", k(Ohm), k(Volt) / k(Ampere), 4);
	ID("Siemens = 1/Ohm", k(Siemens), 1.0 / k(Ohm), 4);
	ID("Ampere = Coulomb/s", k(Ampere), k(Coulomb) / k(sec), 4);
	ID("Farad = Coulomb/Volt", k(Farad), k(Coulomb) / k(Volt), 4);
	ID("Tesla = N s/(C m)", k(Tesla), (k(Newton) * k(sec)) / (k(Coulomb) * k(meter)), 4);
	ID("Gauss = 1e-4 Tesla", k(Gauss), 1e-4 * k(Tesla), 4);
	ID("Weber = Tesla m^2", k(Weber), k(Tesla) * k(meter) * k(meter), 4);
	ID("Hz*sec = 1", k(Hz) * k(sec), 1.0, 4);
	ID("ms", k(ms), 1e-3 * k(sec), 4);
	ID("ns", k(ns), 1e-9 * k(sec), 4);
	ID("minute = 60 s", k(minute), 60.0 * k(sec), 4);
	ID("hr = 60 minute", k(hr), 60.0 * k(minute), 4);
	ID("day = 24 hr", k(day), 24.0 * k(hr), 4);
	ID("week = 7 day", k(week), 7.0 * k(day), 4);
	ID("year = 365.25 day", k(year), 365.25 * k(day), 4);
	ID("mm", k(mm), 0.1 * k(cm), 4);
	ID("meter = 100 cm", k(meter), 100.0 * k(cm), 4);
	ID("km = 1e3 m", k(km), 1e3 * k(meter), 4);
	ID("fm", k(fm), 1e-15 * k(meter), 4);
	ID("inch", k(inch), 2.54 * k(cm), 4);
	ID("foot = 12 inch", k(foot), 12.0 * k(inch), 4);
	ID("yard = 3 foot", k(yard), 3.0 * k(foot), 4);
	ID("mile", k(mile), 1609.344 * k(meter), 4);
	ID("Angstrom", k(Angstrom), 1e-10 * k(meter), 4);
	ID("barn", k(barn), 1e-24 * k(cm) * k(cm), 4);
	ID("pb", k(pb), 1e-12 * k(barn), 4);
	ID("hectare", k(hectare), 1e4 * k(meter) * k(meter), 4);
	ID("sec = c * meter", k(sec), 299792458.0 * k(meter), 4);
	ID("kpc", k(kpc), 1e3 * k(pc), 4);
	ID("Mpc", k(Mpc), 1e6 * k(pc), 4);
	ID("ly = 365.25 day", k(ly), 365.25 * k(day), 4);
	ID("arcmin", k(arcmin), k(deg) / 60.0, 4);
	ID("arcsec", k(arcsec), k(arcmin) / 60.0, 4);
	ID("eV", k(eV), 1e-9 * k(GeV), 4);
	ID("keV", k(keV), 1e-6 * k(GeV), 4);
	ID("MeV", k(MeV), 1e-3 * k(GeV), 4);
	ID("TeV", k(TeV), 1e3 * k(GeV), 4);
	ID("Rydberg", k(Rydberg), 13.605693009 * k(eV), 4);
	ID("mEarth", k(mEarth), 5.9724e24 * k(kg), 4);
	ID("G_Newton", k(G_Newton), 1.0 / k(mPlanck) / k(mPlanck), 4);
	ID("meV", k(meV), 1e-12 * k(GeV), 4);
	ID("PeV", k(PeV), 1e6 * k(GeV), 4);
	ID("deg = pi/180", k(deg), M_PI / 180.0, 4);
	ID("AU = 149597870700 m", k(AU), 149597870700.0 * k(meter), 4);
	// dynamically initialised (sqrt / pow at start-up in some builds)
	ID("mPlanck_reduced = mPlanck/sqrt(8 pi)", k(mPlanck_reduced), k(mPlanck) / std::sqrt(8.0 * M_PI), 8);
	ID("Higgs_VeV = (sqrt(2) G_Fermi)^(-1/2)", k(Higgs_VeV), 1.0 / std::sqrt(std::sqrt(2.0) * k(G_Fermi)), 16);
	// the physical values behind the remaining constants, to the accuracy any edition of the data tables agrees on: a slipped exponent or a
	// mistyped digit is a defect, a CODATA update is not (REL(r) = relative tolerance r expressed in units of eps)
#define REL(r) ((r) / EPS)
	ID("GeV = 1", k(GeV), 1.0, 0);
	ID("gram in GeV (c^2/e * 1e-3 * 1e-9)", k(gram), 5.6095886e23, REL(1e-6));
	ID("cm in 1/GeV (1/(hbar c))", k(cm), 5.0677307e13, REL(1e-6));
	ID("Elementary_Charge = sqrt(4 pi alpha)", k(Elementary_Charge), std::sqrt(4 * M_PI / 137.035999), REL(1e-6));
	ID("Coulomb = e / 1.602176634e-19", k(Coulomb), k(Elementary_Charge) / 1.602176634e-19, REL(1e-6));
	ID("G_Fermi", k(G_Fermi), 1.1663787e-5, REL(1e-5));
	ID("aEM", k(aEM), 1.0 / 137.035999, REL(1e-6));
	ID("mPlanck", k(mPlanck), 1.2209e19, REL(1e-3));
	ID("lbs", k(lbs), 0.45359237 * k(kg), REL(1e-5));
	ID("acre", k(acre), 4046.8564224 * k(meter) * k(meter), REL(1e-5));
	ID("pc", k(pc), 3.0856775814913673e16 * k(meter), REL(1e-6));
	ID("rEarth", k(rEarth), 6371.0 * k(km), REL(2e-3));
	ID("rSun", k(rSun), 6.957e8 * k(meter), REL(2e-3));
	ID("mSun", k(mSun), 1.9885e30 * k(kg), REL(1e-3));
	ID("Bohr_Radius", k(Bohr_Radius), 5.29177210903e-11 * k(meter), REL(1e-6));
	ID("AMU", k(AMU), 0.93149410242, REL(1e-6));
	ID("Kelvin (Boltzmann constant)", k(Kelvin), 8.617333262e-14, REL(1e-5));
	ID("mole", k(mole), 6.02214076e23, REL(1e-6));
	ID("mProton", k(mProton), 938.27208816e-3, REL(1e-6));
	ID("mNeutron", k(mNeutron), 939.56542052e-3, REL(1e-6));
	ID("mNucleon", k(mNucleon), 0.9389, REL(1e-2));
	ID("mElectron", k(mElectron), 0.51099895e-3, REL(1e-6));
	ID("mMuon", k(mMuon), 105.6583755e-3, REL(1e-6));
	ID("mTau", k(mTau), 1.77686, REL(1e-3));
	ID("mZ", k(mZ), 91.1876, REL(1e-3));
	ID("mW", k(mW), 80.38, REL(1e-2));
	ID("mHiggs", k(mHiggs), 125.2, REL(1e-2));
	ID("mTop", k(mTop), 173.0, REL(2e-2));
	ID("mBottom", k(mBottom), 4.18, REL(5e-2));
	ID("mCharm", k(mCharm), 1.27, REL(5e-2));
#undef REL
#undef k
#undef ID
	return v;
}
}	// namespace

VCLAUSE(unit_constants, 4, 40, 200, "every configuration (g++/clang++ at -O0/-O2 and the sanitizer build) is compared; a case is one pass over all identities and all constants")
{
	const char* dir = getenv("VERIF_UNITS_DIR");
	VCHECK(dir != nullptr, "harness: VERIF_UNITS_DIR is not set (vrun.py builds the unit probes)");
	static const char* cfgs[] = {"g++_O0", "g++_O2", "clang++_O0", "clang++_O2", "g++_O1_sanitizers"};
	std::vector<std::pair<std::string, Consts>> builds;
	for(auto cf : cfgs)
	{
		Consts m;
		VCHECK(load_consts(std::string(dir) + "/" + cf + ".txt", m), "harness: probe output for configuration " << cf << " is missing");
		builds.emplace_back(cf, m);
	}
	// the sanitizer build this binary is linked with: read the constants in-process
	{
		Consts m = builds[0].second;
		using namespace natural_units;
		m["Joule"] = Joule; m["erg"] = erg; m["cal"] = cal; m["Watt"] = Watt; m["Volt"] = Volt; m["Farad"] = Farad; m["Ohm"] = Ohm; m["Siemens"] = Siemens;
		m["kg"] = kg; m["gram"] = gram; m["meter"] = meter; m["sec"] = sec; m["cm"] = cm; m["Newton"] = Newton; m["Coulomb"] = Coulomb; m["Ampere"] = Ampere; m["Tesla"] = Tesla; m["Pa"] = Pa; m["dyne"] = dyne; m["Hz"] = Hz;
		builds.emplace_back("g++_O1_sanitizers(in-process)", m);
	}
	c.nt();
	int which = (int) c.s.range(0, 3);
	(void) which;
	std::vector<Identity> ids = identities();
	VLOG(c, builds.size() << " build configurations, " << builds[0].second.size() << " constants, " << ids.size() << " identities");
	for(auto& b : builds)
	{
		for(auto& kv : b.second)
			VCHECK(std::isfinite(kv.second) && kv.second > 0, "constant " << kv.first << " = " << kv.second << " in build " << b.first);
		for(auto& id : ids)
		{
			double l = id.lhs(b.second), r = id.rhs(b.second);
			VCLOSE(c, "defining_product", l, r, id.ulps * EPS * std::fabs(r), "identity '" << id.name << "' in build " << b.first << ": " << l << " vs " << r);
		}
	}
	// all builds agree bit for bit
	for(size_t bi = 1; bi < builds.size(); bi++)
		for(auto& kv : builds[bi].second)
		{
			auto it = builds[0].second.find(kv.first);
			VCHECK(it != builds[0].second.end(), "constant " << kv.first << " missing in build " << builds[0].first);
			// the same number in every build: to two units in the last place (a library call folded by one compiler and made at start-up by
			// another may round differently); bit-identical values are counted
			VCLOSE(c, "same_value_in_every_build", kv.second, it->second, 2 * EPS * std::fabs(it->second), "constant " << kv.first << " differs between builds " << builds[0].first << " and " << builds[bi].first);
			if(same_bits(it->second, kv.second))
				c.cls("constant_bit_identical_across_builds");
			else
				c.cls("constant_differs_in_last_bits_across_builds");
		}
}
