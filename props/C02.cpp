// C02 Find_Root returns a root of the bracketed function to the requested accuracy
#include "../engine/harness.hpp"

#include <functional>

#include "libphysica/Numerics.hpp"

using namespace vf;
const char* const vf::kPropertyId = "C02";

namespace
{
struct Fn
{
	std::function<double(double)> f;
	std::vector<double> roots;	 // all roots inside the bracket (analytically known)
	std::string desc;
	bool hard = false;	 // multiplicity>1, saturating or spanning decades
};

// counts and records where the user function is called
struct Probe
{
	std::function<double(double)> f;
	double lo, hi;
	long calls = 0;
	double xmin = 1e308, xmax = -1e308;
	bool nan_abscissa = false, nonfinite_value = false;
	double operator()(double x)
	{
		calls++;
		if(x != x)
			nan_abscissa = true;
		if(x < xmin)
			xmin = x;
		if(x > xmax)
			xmax = x;
		double v = f(x);
		if(!std::isfinite(v))
			nonfinite_value = true;
		return v;
	}
};

int sgn(double v) { return (v > 0) - (v < 0); }

// builds a function with a sign change on [lo,hi]; sets lo,hi
Fn make_function(Ctx& c, double& lo, double& hi)
{
	Src& s = c.s;
	Fn F;
	std::ostringstream d;
	d << std::setprecision(17);
	int fam = s.pick({2, 4, 2, 2, 3, 2, 2, 2});
	// amplitude: usually order one, often 1e-30..1e30, sometimes so small or large that products of two function values leave the double range
	int ampkind = s.pick({12, 6, 1, 1});
	double amp	= ampkind == 0 ? s.sign() : s.sign() * std::pow(10.0, ampkind == 1 ? s.uniform(-30, 30) : (ampkind == 2 ? s.uniform(-300, -140) : s.uniform(140, 300)));
	if(ampkind >= 2)
		c.cls(ampkind == 2 ? "amplitude_tiny" : "amplitude_huge");
	switch(fam)
	{
		case 0:
		{	// linear
			double r = s.mixed(-5, 5), k = std::pow(10.0, s.uniform(-6, 6));
			double w1 = std::pow(10.0, s.uniform(-6, 6)), w2 = std::pow(10.0, s.uniform(-6, 6));
			lo = r - w1;
			hi = r + w2;
			F.f		= [=](double x) { return amp * k * (x - r); };
			F.roots = {r};
			d << "linear " << amp << "*" << k << "*(x-" << r << ")";
			c.cls("fam_linear");
			break;
		}
		case 1:
		{	// power law x^p - c on a bracket spanning decades
			double p = s.coin() ? (double) s.range(1, 12) : s.uniform(0.2, 12.0);
			double r = std::pow(10.0, s.uniform(-5, 5));
			// brackets spanning many decades: usually up to 12, sometimes up to 24 (beyond the 16 digits of a double)
			double umax = s.chance(0.25) ? 12.0 : 6.0;
			double u1 = s.uniform(0, umax), u2 = s.uniform(0, umax);
			lo		  = s.chance(0.15) ? 0.0 : r * std::pow(10.0, -u1);
			hi		  = r * std::pow(10.0, u2);
			if(u2 < 1e-3)
				hi = r * 1.5;
			double cc = std::pow(r, p);
			F.f		  = [=](double x) { return amp * (std::pow(x, p) - cc); };
			// the root of the function as evaluated: x with pow(x,p)==cc; r up to rounding of pow
			F.roots = {r};
			F.hard	= (u1 + u2 >= 2.0) || lo == 0.0;
			d << "power " << amp << "*(x^" << p << " - " << cc << "), root " << r;
			c.cls("fam_power");
			break;
		}
		case 2:
		{	// triple root
			double r = s.mixed(-4, 4), k = std::pow(10.0, s.uniform(-3, 3));
			double w1 = std::pow(10.0, s.uniform(-3, 4)), w2 = std::pow(10.0, s.uniform(-3, 4));
			lo = r - w1;
			hi = r + w2;
			F.f		= [=](double x) { double t = k * (x - r); return amp * t * t * t; };
			F.roots = {r};
			F.hard	= true;
			d << "cubic (" << k << "*(x-" << r << "))^3";
			c.cls("fam_triple_root");
			break;
		}
		case 3:
		{	// exponential: convex / concave
			double r = s.mixed(-3, 3), k = s.sign() * std::pow(10.0, s.uniform(-2, 1.5));
			double w1 = s.uniform(0.01, 20) / std::fabs(k), w2 = s.uniform(0.01, 20) / std::fabs(k);
			lo = r - w1;
			hi = r + w2;
			F.f		= [=](double x) { return amp * std::expm1(k * (x - r)); };
			F.roots = {r};
			F.hard	= std::fabs(k) * (w1 + w2) > 10;
			d << "expm1(" << k << "*(x-" << r << "))";
			c.cls("fam_exp");
			break;
		}
		case 4:
		{	// saturating: atan, tanh, erf, logistic - q
			double r = s.mixed(-3, 3), k = std::pow(10.0, s.uniform(-2, 3));
			double w1 = std::pow(10.0, s.uniform(-2, 4)) / k * 10, w2 = std::pow(10.0, s.uniform(-2, 4)) / k * 10;
			lo		 = r - w1;
			hi		 = r + w2;
			int kind = (int) s.range(0, 3);
			if(kind == 0)
				F.f = [=](double x) { return amp * std::atan(k * (x - r)); };
			else if(kind == 1)
				F.f = [=](double x) { return amp * std::tanh(k * (x - r)); };
			else if(kind == 2)
				F.f = [=](double x) { return amp * std::erf(k * (x - r)); };
			else
			{
				double q = s.uniform(0.001, 0.999);
				F.f		 = [=](double x) { return amp * (1.0 / (1.0 + std::exp(-k * (x - r))) - q); };
				F.roots	 = {r + std::log(q / (1.0 - q)) / k};
				// keep the sign change inside the bracket
				lo = std::min(lo, F.roots[0] - w1);
				hi = std::max(hi, F.roots[0] + w2);
			}
			if(F.roots.empty())
				F.roots = {r};
			F.hard = true;
			d << "saturating kind " << kind << " k=" << k << " r=" << r;
			c.cls("fam_saturating");
			break;
		}
		case 5:
		{	// three simple roots inside the bracket times a positive factor
			double r1 = s.mixed(-2, 2), g1 = std::pow(10.0, s.uniform(-2, 2)), g2 = std::pow(10.0, s.uniform(-2, 2));
			double r2 = r1 + g1, r3 = r2 + g2;
			lo = r1 - std::pow(10.0, s.uniform(-2, 2));
			hi = r3 + std::pow(10.0, s.uniform(-2, 2));
			double w = s.uniform(0, 3);
			F.f		 = [=](double x) { return amp * (x - r1) * (x - r2) * (x - r3) * (2.0 + std::sin(w * x)); };
			F.roots	 = {r1, r2, r3};
			d << "three roots " << r1 << "," << r2 << "," << r3 << " times (2+sin(" << w << "x))";
			c.cls("fam_three_roots");
			break;
		}
		case 6:
		{	// monotone with inflection: x + a*sin(x) style, |a|<1, shifted
			double r = s.mixed(-2, 2), a = s.uniform(-0.95, 0.95), k = std::pow(10.0, s.uniform(-1, 2));
			lo = r - std::pow(10.0, s.uniform(-2, 2));
			hi = r + std::pow(10.0, s.uniform(-2, 2));
			F.f		= [=](double x) { double t = k * (x - r); return amp * (t + a * std::sin(t)); };
			F.roots = {r};
			d << "t+" << a << "*sin(t), t=" << k << "*(x-" << r << ")";
			c.cls("fam_inflection");
			break;
		}
		default:
		{	// non-monotone, single sign change: (x-r)*(1.2+cos(w(x-r)))
			double r = s.mixed(-2, 2), w = std::pow(10.0, s.uniform(-1, 2));
			lo = r - std::pow(10.0, s.uniform(-2, 2));
			hi = r + std::pow(10.0, s.uniform(-2, 2));
			F.f		= [=](double x) { return amp * (x - r) * (1.2 + std::cos(w * (x - r))); };
			F.roots = {r};
			d << "(x-" << r << ")*(1.2+cos(" << w << "*(x-r)))";
			c.cls("fam_nonmonotone");
			break;
		}
	}
	d << " on [" << lo << "," << hi << "]";
	F.desc = d.str();
	return F;
}
}	// namespace

VCLAUSE(roots, 40, 60000, 1500000, "bracket or root spans >= 2 decades, root of multiplicity 3, or saturating function")
{
	double lo, hi;
	Fn F = make_function(c, lo, hi);
	if(!(lo < hi) || !std::isfinite(lo) || !std::isfinite(hi))
		throw Discard();
	double flo = F.f(lo), fhi = F.f(hi);
	if(!(sgn(flo) * sgn(fhi) < 0) || !std::isfinite(flo) || !std::isfinite(fhi))   // the statement's domain: finite values of opposite signs at the ends (their product may under- or overflow)
		throw Discard();
	if(flo * fhi >= 0.0 || !std::isfinite(flo * fhi))
		c.cls("end_value_product_leaves_double_range");
	double scale = 0;
	for(double r : F.roots)
		scale = std::max(scale, std::fabs(r));
	scale		 = std::max({scale, 1e-300});
	double width = hi - lo;
	// "all accuracies from 1e-14*|root|": the resolution that matters is the one at the root, not at the far end of a wide bracket;
	// half of the cases keep the older, coarser floor of a few ulps of the larger bracket end
	// (for a root at or next to zero 1e-14*|root| degenerates; every bracketing method needs one iteration per halving then, and the
	// library's budget of 200 iterations bounds what can be asked for at about 2^-200 of the width: the floor is 1e-55 of the width)
	double accmin = std::max(1e-14 * scale, 1e-55 * width);
	bool fine = c.s.coin();
	if(!fine)
		accmin = std::max(accmin, 8 * EPS * std::max(std::fabs(lo), std::fabs(hi)));
	else
		c.cls("accuracy_floor_at_root_scale");
	if(!(accmin < width))
		throw Discard();
	double acc = std::exp(std::log(accmin) + c.s.unit() * (std::log(width) - std::log(accmin)));
	bool swap  = c.s.coin();
	if(F.hard)
		c.nt();
	c.cls(swap ? "reversed_bracket" : "ordered_bracket");
	VLOG(c, F.desc << " acc=" << acc << " order=" << (swap ? "hi,lo" : "lo,hi"));
	Probe P {F.f, lo, hi};
	double res = 0;
	GuardResult g = guarded([&]() { res = libphysica::Find_Root(std::ref(P), swap ? hi : lo, swap ? lo : hi, acc); });
	VCHECK(!g.exited, "Find_Root terminated the process on a valid bracket: " << g.text);
	VLOG(c, "result=" << res << " evaluations=" << P.calls);
	VCHECK(std::isfinite(res) && res >= lo && res <= hi, "result " << res << " outside the bracket [" << lo << "," << hi << "]");
	VCHECK(!P.nan_abscissa, "function evaluated at a NaN abscissa");
	VCHECK(P.xmin >= lo && P.xmax <= hi, "function evaluated outside the bracket: abscissae in [" << P.xmin << "," << P.xmax << "], bracket [" << lo << "," << hi << "]");
	if(P.nonfinite_value)
		throw Discard();   // the generated function overflowed inside the bracket: not a real-valued continuous function there
	// oracle: the function vanishes or changes sign within acc of the result
	double slack = acc * 1e-9 + 16 * EPS * (fine ? std::max(std::fabs(res), scale) : std::max(std::fabs(lo), std::fabs(hi)));
	double a = std::max(lo, res - acc - slack), b = std::min(hi, res + acc + slack);
	double fa = F.f(a), fb = F.f(b), fr = F.f(res);
	bool ok = (fa == 0 || fb == 0 || fr == 0 || sgn(fa) != sgn(fb));
	double nearest = 1e308;
	for(double r : F.roots)
		nearest = std::min(nearest, std::fabs(res - r));
	if(!ok)
		ok = nearest <= acc + slack + 16 * EPS * scale;
	c.ratio("root_distance/acc", nearest / acc);
	if(g.text.find("Iterations exceed") != std::string::npos)
		c.cls("iteration_cap_warning");
	VCHECK(ok, "no sign change within the requested accuracy " << acc << " of the result " << res << ": f(" << a << ")=" << fa << " f(" << b << ")=" << fb
													   << " nearest known root at distance " << nearest << " evaluations=" << P.calls << " :: " << F.desc << " diagnostic=" << g.text);
}

VCLAUSE(linear_exact, 20, 20000, 400000, "bracket is asymmetric by >= 2 decades or accuracy is coarser than 1e-3 of the width")
{
	double r = c.s.mixed(-5, 5), k = c.s.sign() * std::pow(10.0, c.s.uniform(-6, 6)), off = 0;
	double w1 = std::pow(10.0, c.s.uniform(-6, 6)), w2 = std::pow(10.0, c.s.uniform(-6, 6));
	double lo = r - w1, hi = r + w2;
	if(!(lo < r && r < hi))
		throw Discard();
	(void) off;
	double width = hi - lo;
	double acc	 = width * std::pow(10.0, c.s.uniform(-12, 0));
	bool swap	 = c.s.coin();
	if(std::fabs(std::log10(w1 / w2)) >= 2 || acc > 1e-3 * width)
		c.nt();
	// amplitudes over the whole double range: the products of two values may under- or overflow
	if(c.s.chance(0.15))
	{
		k = (k < 0 ? -1 : 1) * std::pow(10.0, c.s.sign() * c.s.uniform(140, 290)) / std::max(w1, w2);
		c.cls("amplitude_extreme");
	}
	std::function<double(double)> f = [=](double x) { return k * (x - r); };
	if(!std::isfinite(f(lo)) || !std::isfinite(f(hi)) || f(lo) == 0 || f(hi) == 0)
		throw Discard();
	VLOG(c, "f=" << k << "*(x-" << r << ") on [" << lo << "," << hi << "] acc=" << acc << " swap=" << swap);
	double res = 0;
	Probe P {f, lo, hi};
	VMUST_RETURN("Find_Root on a linear function", res = libphysica::Find_Root(std::ref(P), swap ? hi : lo, swap ? lo : hi, acc));
	VCHECK(!P.nan_abscissa && P.xmin >= lo && P.xmax <= hi, "function evaluated outside the bracket: abscissae in [" << P.xmin << "," << P.xmax << "], bracket [" << lo << "," << hi << "]");
	double tol = 64 * EPS * std::max(std::fabs(lo), std::fabs(hi));
	VCLOSE(c, "linear_root", res, r, tol, "linear function must be solved exactly (to rounding), independent of the accuracy " << acc);
}

VCLAUSE(zero_end, 20, 12000, 250000, "the zero is the upper end, or both ends are zeros, or the bracket is given reversed")
{
	int fam = c.s.pick({1, 1, 1});
	double r = c.s.mixed(-5, 5), w = std::pow(10.0, c.s.uniform(-6, 6));
	bool upper = c.s.coin(), both = c.s.chance(0.15), swap = c.s.coin();
	double other = upper ? r - w : r + w;
	if(other == r)
		throw Discard();
	std::function<double(double)> f;
	double sg = c.s.coin() ? 1.0 : -1.0;   // increasing or decreasing (a decreasing function returns -0.0 at its zero)
	double mag = c.s.chance(0.2) ? std::pow(10.0, c.s.sign() * c.s.uniform(100, 250)) : 1.0;
	sg *= mag;
	if(both)
		f = [=](double x) { return sg * (x - r) * (x - other); };
	else if(fam == 0)
		f = [=](double x) { return sg * 3.0 * (x - r); };
	else if(fam == 1)
		f = [=](double x) { return sg * std::atan(x - r); };
	else
		f = [=](double x) { return sg * ((x - r) * (1.0 + x * x)); };
	c.cls(sg < 0 ? "decreasing" : "increasing");
	double lo = std::min(r, other), hi = std::max(r, other);
	if(upper || both || swap)
		c.nt();
	double acc = (hi - lo) * std::pow(10.0, c.s.uniform(-10, 0));
	VLOG(c, "zero at end " << r << " other end " << other << " both=" << both << " fam=" << fam << " swap=" << swap << " acc=" << acc);
	VCHECK(f(r) == 0.0, "harness: constructed end is not an exact zero");
	if(!std::isfinite(f(other)) || (!both && f(other) == 0.0))
		throw Discard();
	double res = 0;
	Probe P {f, lo, hi};
	VMUST_RETURN("Find_Root with a zero at a bracket end", res = libphysica::Find_Root(std::ref(P), swap ? hi : lo, swap ? lo : hi, acc));
	VCHECK(!P.nan_abscissa && P.xmin >= lo && P.xmax <= hi, "function evaluated outside the bracket: abscissae in [" << P.xmin << "," << P.xmax << "], bracket [" << lo << "," << hi << "]");
	if(both)
		VCHECK(res == r || res == other, "both ends are zeros, result " << res << " is neither " << r << " nor " << other);
	else
		VCHECK(res == r, "bracket end " << r << " is a zero but " << res << " was returned");
}

VCLAUSE(invalid_bracket, 20, 12000, 250000, "values at the ends differ in magnitude by >= 1e6, or exactly one end is NaN")
{
	int kind = c.s.pick({3, 1, 1, 1, 1});
	double a = c.s.mixed(-4, 4), w = std::pow(10.0, c.s.uniform(-4, 4));
	double lo = a, hi = a + w;
	if(!(lo < hi))
		throw Discard();
	bool swap = c.s.coin();
	std::function<double(double)> f;
	double nanv = std::numeric_limits<double>::quiet_NaN();
	if(kind == 0)
	{	// same sign at both ends (possibly with roots in between, possibly none)
		double m1 = std::pow(10.0, c.s.uniform(-8, 8)), m2 = std::pow(10.0, c.s.uniform(-8, 8)), sg = c.s.sign();
		bool dip = c.s.coin();
		f = [=](double x) {
			double t = (x - lo) / (hi - lo);
			double v = sg * (m1 * (1 - t) + m2 * t);
			return dip ? v * (1 - 6 * t * (1 - t)) : v;	  // with dip: two sign changes inside, none between the ends
		};
		if(std::fabs(std::log10(m1 / m2)) >= 6)
			c.nt();
		c.cls("no_sign_change");
	}
	else if(kind == 1)
	{
		bool at_lo = c.s.coin();
		f = [=](double x) { return (x == (at_lo ? lo : hi)) ? nanv : (x - 0.5 * (lo + hi)); };
		c.nt();
		c.cls("nan_one_end");
	}
	else if(kind == 2)
	{
		f = [=](double) { return nanv; };
		c.cls("nan_both_ends");
	}
	else if(kind == 3)
	{	// same sign, magnitudes whose product leaves the double range
		double e1 = c.s.uniform(160, 300), e2 = c.s.uniform(160, 300), sg = c.s.sign(), dir = c.s.sign();
		double m1 = std::pow(10.0, dir * e1), m2 = std::pow(10.0, dir * e2);
		f = [=](double x) { double t = (x - lo) / (hi - lo); return sg * (m1 * (1 - t) + m2 * t); };
		c.nt();
		c.cls("no_sign_change_product_leaves_double_range");
	}
	else
	{	// a zero at one end, NaN at the other: "NaN ends" terminate
		bool at_lo = c.s.coin();
		f = [=](double x) { return (x == (at_lo ? lo : hi)) ? nanv : ((x == lo || x == hi) ? 0.0 : 1.0); };
		c.nt();
		c.cls("nan_one_end_zero_other");
	}
	double acc = w * std::pow(10.0, c.s.uniform(-12, 0));
	VLOG(c, "invalid bracket kind=" << kind << " [" << lo << "," << hi << "] swap=" << swap << " acc=" << acc);
	VMUST_EXIT("Find_Root on a bracket without sign change / with NaN", double r = libphysica::Find_Root(f, swap ? hi : lo, swap ? lo : hi, acc); (void) r);
}
