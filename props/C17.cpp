// C17 Scalar special functions and vector spherical harmonics match their definitions
#include "../engine/harness.hpp"
#include "../engine/refmath.hpp"

#include "libphysica/Special_Functions.hpp"

using namespace vf;
using namespace libphysica;
const char* const vf::kPropertyId = "C17";

VCLAUSE(dawson_erfi, 10, 60000, 1500000, "|x| within 0.05 of the series/sum switch at 0.2, or |x| > 5")
{
	Src& s = c.s;
	double x;
	switch(s.pick({30, 30, 30, 10, 2}))
	{
		case 4:
		{	// exact special arguments: zero, the switch itself and its floating-point neighbours, the end of the stated range
			static const double sp[] = {0.0, 0.2, 30.0, 1e-300, 5e-324, 0.4, 0.6};
			x = sp[s.range(0, 6)];
			int steps = (int) s.range(-2, 2);
			for(int i = 0; i < std::abs(steps) && x != 0; i++)
				x = std::nextafter(x, steps > 0 ? 1e9 : 0.0);
			x *= s.sign();
			c.cls("special_argument");
			break;
		}
		case 0: x = s.sign() * (0.2 + s.sign() * std::pow(10.0, s.uniform(-12, -0.7))); break;	 // dense around +-0.2
		case 1: x = s.uniform(-0.6, 0.6); break;
		case 2: x = s.uniform(-30, 30); break;
		default: x = s.sign() * std::pow(10.0, s.uniform(-12, 1.47)); break;
	}
	if(std::fabs(x) > 30)
		x = 30 * (x > 0 ? 1 : -1);
	if(std::fabs(std::fabs(x) - 0.2) < 0.05 || std::fabs(x) > 5)
		c.nt();
	VLOG(c, "x=" << x);
	double d = 0, dm = 0, e = 0, em = 0;
	VMUST_RETURN("Dawson_Integral/Erfi", d = Dawson_Integral(x); dm = Dawson_Integral(-x); e = Erfi(x); em = Erfi(-x));
	VCHECK(same_bits(dm, -d) || (d == 0 && dm == 0), "Dawson_Integral is not odd: D(" << x << ")=" << d << " D(" << -x << ")=" << dm);
	VCHECK(same_bits(em, -e) || (e == 0 && em == 0), "Erfi is not odd: " << e << " vs " << em);
	long double rd = ref::dawson(x);
	VCLOSE(c, "dawson_abs_2e-7", d, (double) rd, 2e-7, "Dawson_Integral(" << x << ")");
	// erfi(x) = 2/sqrt(pi) exp(x^2) D(x)
	long double lref = (long double) x * x + logl(2 / sqrtl(M_PIl) * fabsl(rd));	 // log|erfi|
	if(x == 0)
		VCHECK(e == 0, "Erfi(0)=" << e);
	else if(lref < 709.0L)
	{
		long double re = (x < 0 ? -1 : 1) * expl(lref);
		VCHECK(std::isfinite(e), "Erfi(" << x << ")=" << e << " but the true value " << (double) re << " is finite");
		VCLOSE(c, "erfi_rel_1e-6", e / (double) re, 1.0, 1e-6, "Erfi(" << x << ")=" << e << " reference " << (double) re);
	}
	else if(lref > 710.5L)
		VCHECK(std::isinf(e) && (e > 0) == (x > 0), "Erfi(" << x << ")=" << e << " where the true value overflows");
}

VCLAUSE(inv_erf, 10, 8000, 200000, "|p| > 0.99 (tails) or |p| < 1e-3")
{
	Src& s = c.s;
	double p;
	switch(s.pick({20, 20, 10, 1}))
	{
		case 3: p = s.coin() ? 0.0 : s.sign() * (s.coin() ? 0.5 : 5e-324); break;
		case 0: p = s.uniform(-1, 1); break;
		case 1: p = s.sign() * (1.0 - std::pow(10.0, s.uniform(-12, -1))); break;
		default: p = s.sign() * std::pow(10.0, s.uniform(-12, -1)); break;
	}
	if(!(std::fabs(p) < 1.0) || 1 - std::fabs(p) < 1e-12)
		throw Discard();
	if(std::fabs(p) > 0.99 || std::fabs(p) < 1e-3)
		c.nt();
	VLOG(c, "p=" << p);
	double v = 0;
	VMUST_RETURN("Inv_Erf(" << p << ")", v = Inv_Erf(p));
	VCLOSE(c, "inv_erf_1e-4", v, (double) ref::erf_inv(p), 1e-4, "Inv_Erf(" << p << ")");
}

VCLAUSE(round, 12, 40000, 1000000, "the value lies within 1e-9 relative of a power of ten or of a half-way digit, or |exponent| > 100")
{
	Src& s = c.s;
	unsigned d = (unsigned) s.range(1, 7);
	int e	   = (int) s.range(-300, 300);
	double x;
	int mode = s.pick({3, 2, 2, 1});
	if(mode == 0)
		x = s.uniform(1, 10) * std::pow(10.0, e);
	else if(mode == 1)
		x = std::pow(10.0, e) * (1 + s.sign() * std::pow(10.0, s.uniform(-16, -9)));	  // just below/above a power of ten
	else if(mode == 2)
	{	// at a half-way digit: k.5 in the d-th place, give or take
		double k = (double) s.range((long) std::pow(10.0, d - 1), (long) std::pow(10.0, d) - 1) + 0.5;
		x		 = k * std::pow(10.0, e - (int) d + 1) * (1 + s.sign() * (s.coin() ? 0.0 : std::pow(10.0, s.uniform(-16, -9))));
	}
	else
		x = (double) s.range(1, 9999999);
	x *= s.sign();
	if(mode == 1 || mode == 2 || std::abs(e) > 100)
		c.nt();
	VLOG(c, "Round(" << x << "," << d << ")");
	double r = 0, rm = 0, rr = 0;
	VMUST_RETURN("Round", r = Round(x, d); rm = Round(-x, d); rr = Round(r, d));
	VCHECK(same_bits(rm, -r), "Round is not odd: Round(" << x << ")=" << r << " Round(" << -x << ")=" << rm);
	VCHECK(rr == r, "Round is not idempotent: Round(" << x << "," << d << ")=" << r << " rounded again gives " << rr);
	// within half a unit of the d-th significant digit of x
	long double ax = fabsl((long double) x);
	int ex		   = (int) floorl(log10l(ax));
	if(powl(10.0L, ex + 1) <= ax)
		ex++;
	if(powl(10.0L, ex) > ax)
		ex--;
	long double unit = powl(10.0L, ex - (int) d + 1);
	VCLOSE(c, "half_unit", (double) (fabsl((long double) r - x) / unit), 0.0, 0.5 * (1 + 1e-6) + 8 * EPS * (double) (ax / unit), "|Round(x,d)-x| in units of the d-th significant digit, x=" << x << " d=" << d << " Round=" << r);
	// monotone on an ordered pair
	double y = x * (1 + s.unit() * std::pow(10.0, s.uniform(-8, 0)));
	if(std::isfinite(y) && y != 0)
	{
		double ry = 0;
		VMUST_RETURN("Round", ry = Round(y, d));
		if(x <= y)
			VCHECK(r <= ry, "Round is not monotone: Round(" << x << ")=" << r << " > Round(" << y << ")=" << ry << " for d=" << d);
		else
			VCHECK(r >= ry, "Round is not monotone: Round(" << x << ")=" << r << " < Round(" << y << ")=" << ry << " for d=" << d);
	}
	double z = 1;
	VMUST_RETURN("Round(0)", z = Round(0.0, d));
	VCHECK(z == 0.0, "Round(0)=" << z);
	// Vector / Matrix overloads round every entry like the scalar one
	if(s.chance(0.1))
	{
		Vector v({x, y, 0.0});
		Matrix M({{x, y}, {0.0, -x}});
		Vector rv;
		Matrix rM;
		VMUST_RETURN("Round(Vector/Matrix)", rv = Round(v, d); rM = Round(M, d));
		double ry2 = 0;
		VMUST_RETURN("Round", ry2 = Round(y, d));
		VCHECK(same_bits(rv[0], r) && same_bits(rv[1], ry2) && rv[2] == 0 && same_bits(rM[0][0], r) && same_bits(rM[0][1], ry2) && rM[1][0] == 0 && same_bits(rM[1][1], rm),
			   "Round overloads for Vector/Matrix differ from the scalar Round");
	}
}

VCLAUSE(sign_step_equal, 10, 20000, 400000, "an argument is zero, or the two arguments are equal")
{
	Src& s = c.s;
	auto gen = [&]() {
		switch(s.pick({2, 1, 1, 4}))
		{
			case 0: return 0.0;
			case 1: return -0.0;
			case 2: return s.sign() * std::pow(10.0, s.uniform(-300, 300));
			default: return s.mixed(-8, 8);
		}
	};
	double a = gen(), b;
	switch(s.pick({3, 4, 2, 1}))
	{
		case 0: b = a; break;
		case 1: b = gen(); break;
		case 2: b = a * (1 + s.sign() * std::pow(10.0, s.uniform(-16, -7))); c.cls("nearly_equal"); break;	 // both sides of the 1e-10 tolerance
		default: b = std::nextafter(a, s.coin() ? 1e308 : -1e308); c.cls("neighbours"); break;
	}
	if(a == 0 || b == 0 || a == b)
		c.nt();
	VLOG(c, "a=" << a << " b=" << b);
	int sa = 0;
	double st = 0, sxy = 0, rd1 = 0, rd2 = 0;
	bool e1 = false, e2 = false, ea = false;
	VMUST_RETURN("Sign/StepFunction/Relative_Difference/Floats_Equal", sa = Sign(a); st = StepFunction(a); sxy = Sign(a, b); rd1 = Relative_Difference(a, b); rd2 = Relative_Difference(b, a); e1 = Floats_Equal(a, b); e2 = Floats_Equal(b, a);
				 ea = Floats_Equal(a, a));
	VCHECK(sa == (a > 0) - (a < 0), "Sign(" << a << ")=" << sa);
	VCHECK(st == (a >= 0 ? 1.0 : 0.0), "StepFunction(" << a << ")=" << st);
	// Sign(x,y): x with the sign of y (in the sense of the integer Sign: equal signs keep x, otherwise -x)
	int sb = (b > 0) - (b < 0);
	VCHECK(sxy == (sa == sb ? a : -a), "Sign(" << a << "," << b << ")=" << sxy);
	VCHECK(same_bits(rd1, rd2) || (rd1 != rd1 && rd2 != rd2), "Relative_Difference is not symmetric: " << rd1 << " vs " << rd2);
	VCHECK(ea, "Floats_Equal(" << a << "," << a << ") is false: not reflexive");
	VCHECK(e1 == e2, "Floats_Equal is not symmetric for " << a << "," << b);
	if(a == b)
		VCHECK(e1 && rd1 == 0.0, "equal numbers: Floats_Equal=" << e1 << " Relative_Difference=" << rd1);
	else if(std::isfinite(a - b))
	{
		long double rdr = fabsl((long double) a - b) / std::max(fabsl((long double) a), fabsl((long double) b));
		VCLOSE(c, "relative_difference", rd1, (double) rdr, 4 * EPS, "Relative_Difference(" << a << "," << b << ")");
		if(rdr < 0.5e-10L)
			VCHECK(e1, "Floats_Equal false at relative difference " << (double) rdr);
		if(rdr > 2e-10L)
			VCHECK(!e1, "Floats_Equal true at relative difference " << (double) rdr);
		// explicit tolerance: consistent with Relative_Difference on both sides of it
		double tol = std::pow(10.0, s.uniform(-15, 0));
		bool e3 = false, e3r = false;
		VMUST_RETURN("Floats_Equal(a,b,tol)", e3 = Floats_Equal(a, b, tol); e3r = Floats_Equal(b, a, tol));
		VCHECK(e3 == e3r, "Floats_Equal(a,b,tol) is not symmetric for " << a << "," << b << " tol=" << tol);
		if(rdr < 0.5L * tol)
			VCHECK(e3, "Floats_Equal(" << a << "," << b << "," << tol << ") false at relative difference " << (double) rdr);
		if(rdr > 2.0L * tol)
			VCHECK(!e3, "Floats_Equal(" << a << "," << b << "," << tol << ") true at relative difference " << (double) rdr);
	}
}

VCLAUSE(harmonics, 16, 12000, 300000, "|m| >= 1 and the direction is off the coordinate axes")
{
	Src& s = c.s;
	int l = (int) s.range(0, 12), m = (int) s.range(-l, l);
	double th, ph;
	int dir = s.pick({5, 1, 1, 1});
	switch(dir)
	{
		case 0: th = std::acos(s.uniform(-1, 1)); ph = s.uniform(0, 2 * M_PI); break;
		case 1: th = s.coin() ? 0.0 : M_PI; ph = s.uniform(0, 2 * M_PI); break;					// poles
		case 2: th = M_PI / 2; ph = s.uniform(0, 2 * M_PI); break;									// equator
		default: th = (double) s.range(0, 2) * (M_PI / 2); ph = (double) s.range(0, 3) * (M_PI / 2); break;	// axes
	}
	if(std::abs(m) >= 1 && dir == 0)
		c.nt();
	c.cls(dir == 0 ? "random_direction" : (dir == 1 ? "pole" : (dir == 2 ? "equator" : "axis")));
	VLOG(c, "l=" << l << " m=" << m << " theta=" << th << " phi=" << ph);
	std::complex<double> y, ym;
	std::vector<std::complex<double>> Yv, Pv;
	VMUST_RETURN("Spherical_Harmonics / vector harmonics", y = Spherical_Harmonics(l, m, th, ph); ym = Spherical_Harmonics(l, -m, th, ph); Yv = Vector_Spherical_Harmonics_Y(l, m, th, ph); Pv = Vector_Spherical_Harmonics_Psi(l, m, th, ph));
	VCHECK(Yv.size() == 3 && Pv.size() == 3, "vector harmonics must have three components");
	double tol = 1e-10 * (l + 1) * (l + 1);
	std::complex<long double> yr = ref::Ylm(l, m, th, ph);
	VCLOSE(c, "Ylm_reference_re", y.real(), (double) yr.real(), 1e-12 * (l + 1), "Re Y_lm vs the long double Legendre recurrence");
	VCLOSE(c, "Ylm_reference_im", y.imag(), (double) yr.imag(), 1e-12 * (l + 1), "Im Y_lm vs the long double Legendre recurrence");
	// Y_{l,-m} = (-1)^m conj(Y_lm)
	std::complex<double> want = std::conj(y) * ((m % 2) ? -1.0 : 1.0);
	VCLOSE(c, "conjugation_symmetry", std::abs(ym - want), 0.0, 1e-13 * (l + 1), "Y_{l,-m} vs (-1)^m conj(Y_{l,m})");
	// unit vectors
	long double st = sinl(th), ct = cosl(th), sp = sinl(ph), cp = cosl(ph);
	long double rh[3] = {st * cp, st * sp, ct}, thh[3] = {ct * cp, ct * sp, -st}, phh[3] = {-sp, cp, 0};
	std::complex<long double> rdot = 0;
	for(int i = 0; i < 3; i++)
	{
		std::complex<long double> wanty = rh[i] * yr;
		VCLOSE(c, "vsh_Y", std::abs(std::complex<long double>(Yv[(size_t) i]) - wanty), 0.0, tol, "component " << i << " of the vector harmonic Y vs r_hat*Y_lm");
		rdot += rh[i] * std::complex<long double>(Pv[(size_t) i]);
	}
	VCLOSE(c, "psi_tangential", (double) std::abs(rdot), 0.0, tol, "Psi . r_hat must vanish");
	if(fabsl(st) >= 1e-3L)
	{
		std::complex<long double> dth = ref::dYlm_dtheta(l, m, th, ph), aph = std::complex<long double>(0, m) * yr / st;
		for(int i = 0; i < 3; i++)
		{
			std::complex<long double> wantp = thh[i] * dth + phh[i] * aph;
			VCLOSE(c, "vsh_Psi", (double) std::abs(std::complex<long double>(Pv[(size_t) i]) - wantp), 0.0, tol / (double) std::min(1.0L, fabsl(st)) , "component " << i << " of Psi vs r*grad Y_lm = theta_hat dY/dtheta + phi_hat (i m/sin theta) Y");
		}
	}
	// component tables vs the summed result
	for(int i = 0; i < 3; i++)
	{
		std::complex<long double> sy = 0, spsi = 0;
		for(int lh = l - 1; lh <= l + 1; lh += 2)
			for(int mh = m - 1; mh <= m + 1; mh++)
				if(lh >= 0 && std::abs(mh) <= lh)
				{
					std::complex<double> cy, cpsi;
					VMUST_RETURN("VSH component tables", cy = VSH_Y_Component(i, l, m, lh, mh); cpsi = VSH_Psi_Component(i, l, m, lh, mh));
					std::complex<long double> yh = ref::Ylm(lh, mh, th, ph);
					sy += std::complex<long double>(cy) * yh;
					spsi += std::complex<long double>(cpsi) * yh;
				}
		VCLOSE(c, "Y_component_table", (double) std::abs(sy - std::complex<long double>(Yv[(size_t) i])), 0.0, tol, "sum over the VSH_Y_Component table vs Vector_Spherical_Harmonics_Y, component " << i);
		VCLOSE(c, "Psi_component_table", (double) std::abs(spsi - std::complex<long double>(Pv[(size_t) i])), 0.0, tol, "sum over the VSH_Psi_Component table vs Vector_Spherical_Harmonics_Psi, component " << i);
	}
}
